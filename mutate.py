#!/usr/bin/env python3
"""mutate.py --lanes 3 --per-file 12 [--seed 1]

Systematic mutation campaign (complements the hand-seeded changes): syntactic mutants of libtheo's sources are generated
deterministically, each is built in a scratch worktree, the repository's own 12 tests are run (a mutant they kill is of no
interest), and the surviving ones are run through the quick checks of the properties that the mutated file anchors.
Results: mutants/results.jsonl (one line per mutant) and mutants/summary.md.  Everything happens in scratch copies of
/repo and /verif under /tmp/mlane<k>; /repo and /verif themselves are not touched.
"""
import json, os, random, re, subprocess, sys, time
from concurrent.futures import ThreadPoolExecutor

V = os.path.dirname(os.path.abspath(__file__))
FILES = {
    "Compiler/src/gen.cpp": ["C01", "C03", "C07", "C08", "C16", "C20", "C04", "C02", "C19"],
    "VM/src/vm.cpp": ["C05", "C06", "C17", "C19", "C20", "C01", "C03"],
    "Compiler/src/macro.cpp": ["C09", "C10", "C11", "C12", "C02", "C01"],
    "Compiler/src/scan.cpp": ["C14", "C15", "C02"],
    "Compiler/src/parse.cpp": ["C04", "C02", "C07", "C01", "C15"],
    "Compiler/src/ParserGenerator/grammar.cpp": ["C13", "C12", "C09"],
    "Compiler/src/ParserGenerator/lrdea.cpp": ["C13", "C12", "C09"],
    "Compiler/include/ParserGenerator/lrparser.hpp": ["C13", "C12", "C09"],
    "VM/src/program.cpp": ["C08", "C06", "C05"],
}
OPS = [
    (r"(?<![<>=!+\-*/&|])<(?![<=>])", "<="), (r"<=", "<"), (r"(?<![<>=!\-+*/&|])>(?![>=])", ">="), (r">=", ">"),
    (r"==", "!="), (r"!=", "=="), (r"&&", "||"), (r"\|\|", "&&"),
    (r"\+ 1\b", "+ 2"), (r"- 1\b", "- 2"), (r"\+ 1\b", "+ 0"), (r"- 1\b", "- 0"), (r"\btrue\b", "false"), (r"\bfalse\b", "true"),
    (r"\+\+", "--"), (r"\.begin\(\)", ".begin() + 1"), (r"size\(\) - 1", "size() - 2"), (r"\breturn true;", "return false;"), (r"\breturn false;", "return true;"),
]


def sh(cmd, **kw):
    return subprocess.run(cmd, shell=True, stdout=subprocess.PIPE, stderr=subprocess.STDOUT, text=True, errors="replace", **kw)


def candidates(path, text):
    out = []
    lines = text.split("\n")
    in_comment = False
    for ln, line in enumerate(lines):
        s = line.strip()
        if s.startswith("/*"): in_comment = True
        if in_comment:
            if "*/" in s: in_comment = False
            continue
        if not s or s.startswith("//") or s.startswith("#") or s.startswith("*"): continue
        code = line.split("//")[0]
        if '"' in code and code.count('"') >= 2 and re.search(r'"[^"]*[<>=!&|+\-][^"]*"', code): continue  # operators inside string literals
        if "template" in code or "operator" in code or "std::vector<" in code and "(" not in code: continue
        for oi, (pat, rep) in enumerate(OPS):
            for m in re.finditer(pat, code):
                if pat.startswith("(?<![<>=!") and re.search(r"(std::|vector|map|set|pair|optional|function|static_cast|size_t)\s*$", code[:m.start()]): continue
                if ("<" in pat or ">" in pat) and re.search(r"\w<[\w:, *]+>", code): continue  # template brackets
                if "->" in code[max(0, m.start() - 1):m.end() + 1]: continue
                new = code[:m.start()] + rep + code[m.end():] + line[len(code):]
                out.append({"file": path, "line": ln + 1, "op": "%s -> %s" % (pat, rep), "old": line, "new": new})
        # statement deletion: simple call / assignment statements
        if re.match(r"^\s*(this->|gs\.|es\.|S\.|ps\.|res\.|input\.|a\.)?[\w.\->\[\]]+(\(.*\)|\s*=\s*[^=].*);\s*$", code) and not re.match(r"^\s*(return|auto|int|bool|std::|Node|Token|const|unsigned|long|RegisterIndex|ProgramIndex|WordIndex|Instruction|BreakPoint|FileName|break|continue)", s):
            out.append({"file": path, "line": ln + 1, "op": "delete statement", "old": line, "new": re.match(r"^\s*", line).group(0) + ";"})
    return out


def lane_setup(k):
    lane = "/tmp/mlane%d" % k
    sh("git -C /repo worktree remove --force %s/repo; git -C %s worktree remove --force %s/verif; rm -rf %s" % (lane, V, lane, lane))
    os.makedirs(lane)
    r = sh("git -C /repo worktree add --detach %s/repo HEAD && git -C %s worktree add --detach %s/verif HEAD" % (lane, V, lane))
    if r.returncode: print(r.stdout); sys.exit(2)
    r = sh("cmake -G Ninja -S {l}/repo -B {l}/repo/_build >/dev/null && cmake --build {l}/repo/_build 2>&1 | tail -2".format(l=lane))
    return lane


def lane_teardown(k):
    lane = "/tmp/mlane%d" % k
    sh("git -C /repo worktree remove --force %s/repo; git -C %s worktree remove --force %s/verif; rm -rf %s" % (lane, V, lane, lane))


def run_mutant(lane, m, idx):
    path = os.path.join(lane, "repo", m["file"])
    orig = open(path).read()
    lines = orig.split("\n")
    if lines[m["line"] - 1] != m["old"]:
        return dict(m, status="stale")
    lines[m["line"] - 1] = m["new"]
    open(path, "w").write("\n".join(lines))
    res = dict(m, id=idx)
    try:
        t = time.time()
        r = sh("cmake --build %s/repo/_build 2>&1 | tail -5" % lane)
        if "error" in r.stdout.lower() and "warning" not in r.stdout.lower().split("error")[0][-20:] and r.stdout.count("FAILED") > 0 or "ninja: build stopped" in r.stdout:
            res["status"] = "does-not-compile"; return res
        r = sh("timeout 300 ctest --test-dir %s/repo/_build -j8 --timeout 60 2>&1 | tail -5" % lane)
        if "100% tests passed" not in r.stdout:
            res["status"] = "killed-by-repo-tests"; return res
        res["status"] = "survives-checks"; res["ran"] = []
        env = dict(os.environ, VERIF_REPO=lane + "/repo")
        for p in FILES[m["file"]]:
            r = sh("cd %s/verif && timeout 1500 ./check %s --tier quick 2>&1 | tail -30" % (lane, p), env=env)
            res["ran"].append(p)
            if "VIOLATION property=" in r.stdout:
                what = [l.strip() for l in r.stdout.splitlines() if l.strip().startswith("what:")]
                res["status"] = "caught"; res["caught_by"] = p; res["what"] = what[0][:300] if what else ""; break
            if "ERROR" in r.stdout and "exit" in r.stdout:
                res.setdefault("errors", []).append(p + ": " + r.stdout[-300:])
        res["wall_s"] = round(time.time() - t, 1)
        return res
    finally:
        open(path, "w").write(orig)


def main():
    a = sys.argv[1:]
    lanes = int(a[a.index("--lanes") + 1]) if "--lanes" in a else 3
    per = int(a[a.index("--per-file") + 1]) if "--per-file" in a else 10
    seed = int(a[a.index("--seed") + 1]) if "--seed" in a else 1
    rng = random.Random(seed)
    todo = []
    for f in FILES:
        c = candidates(f, open("/repo/" + f).read())
        rng.shuffle(c)
        # at most one mutant per line, spread over the file
        seen, pick = set(), []
        for m in c:
            if m["line"] in seen: continue
            seen.add(m["line"]); pick.append(m)
            if len(pick) >= per: break
        todo += pick
    print("%d mutants selected" % len(todo))
    os.makedirs(V + "/mutants", exist_ok=True)
    outp = V + "/mutants/results.jsonl"
    done = set()
    if os.path.exists(outp) and "--resume" in a:
        for l in open(outp): j = json.loads(l); done.add((j["file"], j["line"], j["op"]))
    else:
        open(outp, "w").close()
    todo = [m for m in todo if (m["file"], m["line"], m["op"]) not in done]
    lanedirs = [lane_setup(k) for k in range(lanes)]
    queues = [todo[k::lanes] for k in range(lanes)]

    def work(k):
        for i, m in enumerate(queues[k]):
            r = run_mutant(lanedirs[k], m, k + i * lanes)
            with open(outp, "a") as f: f.write(json.dumps(r) + "\n")
            print("[lane %d] %s:%d %s -> %s %s" % (k, m["file"].split("/")[-1], m["line"], m["op"], r["status"], r.get("caught_by", "")), flush=True)
    with ThreadPoolExecutor(lanes) as ex: list(ex.map(work, range(lanes)))
    for k in range(lanes): lane_teardown(k)
    summarize()


def summarize():
    rows = [json.loads(l) for l in open(V + "/mutants/results.jsonl")]
    st = {}
    for r in rows: st[r["status"]] = st.get(r["status"], 0) + 1
    with open(V + "/mutants/summary.md", "w") as f:
        f.write("# Mutation campaign\n\n%s\n\n" % json.dumps(st))
        f.write("| file:line | operator | status | caught by | mutated line |\n|---|---|---|---|---|\n")
        for r in rows:
            f.write("| %s:%d | `%s` | %s | %s | `%s` |\n" % (r["file"].split("/")[-1], r["line"], r["op"].replace("|", "\\|"), r["status"], r.get("caught_by", ""), r["new"].strip()[:90].replace("|", "\\|")))
    print(st)


if __name__ == "__main__":
    if "--summarize" in sys.argv: summarize()
    else: main()
