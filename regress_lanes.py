#!/usr/bin/env python3
"""regress_lanes.py --lanes 2 [--seeds C01-a,C05-f | --all-seeds] [--benign]

Regression of the detection / false-alarm experiments in parallel lanes.  Every lane owns a scratch worktree of /repo and
of /verif (at their HEAD commits) under /tmp/rlane<k>; /repo and /verif themselves are not touched.  A seeded change is
applied to the lane's copy of the repository and the quick check of its property is run against it (VERIF_REPO); a
behaviour-preserving change is run against all twenty quick checks.  Results: one JSON line per job on stdout and in
/tmp/rlane_results.jsonl; the lanes are removed at the end.
"""
import json, os, subprocess, sys, time
from concurrent.futures import ThreadPoolExecutor

V = os.path.dirname(os.path.abspath(__file__))
ALL = ["C%02d" % i for i in range(1, 21)]


def sh(cmd, **kw):
    return subprocess.run(cmd, shell=True, stdout=subprocess.PIPE, stderr=subprocess.STDOUT, text=True, errors="replace", **kw)


def lane_dir(k):
    return "/tmp/rlane%d" % k


def setup(k):
    l = lane_dir(k)
    teardown(k)
    os.makedirs(l)
    r = sh("git -C /repo worktree add --detach %s/repo HEAD && git -C %s worktree add --detach %s/verif HEAD" % (l, V, l))
    if r.returncode:
        print(r.stdout); sys.exit(2)


def teardown(k):
    l = lane_dir(k)
    sh("git -C /repo worktree remove --force %s/repo; git -C %s worktree remove --force %s/verif; rm -rf %s; git -C /repo worktree prune; git -C %s worktree prune" % (l, V, l, l, V))


def run_job(k, job):
    l = lane_dir(k)
    kind, name, props = job
    patch = os.path.join(V, "seeded" if kind == "seed" else "benign", name, "patch.diff")
    r = sh("git -C %s/repo apply %s" % (l, patch))
    res = {"kind": kind, "name": name, "checks": {}}
    if r.returncode:
        res["error"] = "patch does not apply: " + r.stdout[-200:]
        return res
    try:
        env = dict(os.environ, VERIF_REPO=l + "/repo")
        for p in props:
            t = time.time()
            r = sh("cd %s/verif && ./check %s --tier quick" % (l, p), env=env)
            viol = [x for x in r.stdout.splitlines() if x.startswith("VIOLATION")]
            what = [x.strip() for x in r.stdout.splitlines() if x.strip().startswith("what:")]
            res["checks"][p] = {"exit": r.returncode, "violations": len(viol), "first": what[0][:300] if what else "", "wall_s": round(time.time() - t, 1)}
            if r.returncode not in (0, 1):
                res["checks"][p]["log"] = r.stdout[-600:]
        res["detected_by"] = [p for p, v in res["checks"].items() if v["exit"] == 1]
    finally:
        sh("git -C %s/repo checkout -- ." % l)
    return res


def main():
    a = sys.argv[1:]
    lanes = int(a[a.index("--lanes") + 1]) if "--lanes" in a else 2
    jobs = []
    if "--seeds" in a:
        for s in a[a.index("--seeds") + 1].split(","):
            jobs.append(("seed", s, [json.load(open(os.path.join(V, "seeded", s, "meta.json")))["property"]]))
    if "--all-seeds" in a:
        for s in sorted(os.listdir(os.path.join(V, "seeded"))):
            m = os.path.join(V, "seeded", s, "meta.json")
            if os.path.exists(m):
                jobs.append(("seed", s, [json.load(open(m))["property"]]))
    if "--benign" in a:
        for b in sorted(os.listdir(os.path.join(V, "benign"))):
            if os.path.exists(os.path.join(V, "benign", b, "patch.diff")):
                jobs.append(("benign", b, ALL))
    for k in range(lanes):
        setup(k)
    out = open("/tmp/rlane_results.jsonl", "a")
    queues = [jobs[k::lanes] for k in range(lanes)]

    def work(k):
        for j in queues[k]:
            r = run_job(k, j)
            line = json.dumps(r)
            out.write(line + "\n"); out.flush()
            print("[lane %d] %s %s -> %s %s" % (k, j[0], j[1], r.get("detected_by"), r.get("error", "")), flush=True)
    with ThreadPoolExecutor(lanes) as ex:
        list(ex.map(work, range(lanes)))
    for k in range(lanes):
        teardown(k)


if __name__ == "__main__":
    main()
