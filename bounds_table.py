#!/usr/bin/env python3
"""Prints the table of DESIGN.md section 11.7 from evidence/*.json."""
import glob, json, os, re
V = os.path.dirname(os.path.abspath(__file__))
print("| id | level | cases | distinct non-trivial | wall | levels completed (families and bounds) |")
print("|---|---|---|---|---|---|")
for f in sorted(glob.glob(V + "/evidence/C*.json")):
    j = json.load(open(f)); c = j["coverage"]
    seen, lv = set(), []
    for l in c["levels_completed"]:
        l = re.sub(r"\[[a-z+]+\]$", "", l)
        if l not in seen: seen.add(l); lv.append(l)
    pre = ""
    if j["level"] == "model_checking":
        pre = "states %d, transitions %d, validated %d. " % (c.get("states", 0), c.get("transitions", 0), c.get("traces_validated_against_impl", 0))
    print("| %s | %s | %d | %d | %.0f s | %s%s |" % (j["property_id"], j["level"], c["evaluations"], c["distinct_nontrivial"], j["wall_s"], pre, "; ".join(lv)))
