#!/usr/bin/env python3
"""Regenerates MANIFEST.json from the property table in ./check (single source of truth)."""
import importlib.machinery, importlib.util, json, os
V = os.path.dirname(os.path.abspath(__file__))
loader = importlib.machinery.SourceFileLoader("checkmod", os.path.join(V, "check"))
spec = importlib.util.spec_from_loader("checkmod", loader); chk = importlib.util.module_from_spec(spec); loader.exec_module(chk)
from manifest_texts import TEXTS, NOT_APPLICABLE, ENGINES
props = [json.loads(l)["id"] for l in open(os.path.join(V, "properties.jsonl"))]
checks = []
for p in props:
    if p not in chk.PROPS: continue
    c = chk.PROPS[p]; t = TEXTS[p]
    checks.append({
        "property_id": p,
        "quick_cmd": "./check %s --tier quick" % p,
        "thorough_cmd": "./check %s --tier thorough" % p,
        "evidence_file": "/verif/evidence/%s.json" % p,
        "replay_cmd_template": "./check replay {path}",
        "engine": c["parts"][0][0],
        "level_claimed": {"category": c["level"], "text": t["text"], "design_ref": t["design_ref"]},
        "level_note": t["note"],
        "technique": t["technique"],
    })
na = [{"property_id": p, "reason": NOT_APPLICABLE.get(p, "check not built yet (work in progress; see DESIGN.md section 10)")} for p in props if p not in chk.PROPS]
m = {
    "version": 1,
    "setup_cmd": "python3 vbuild.py fast san acc tsan && ./check prebuild",
    "hooks": {
        "guard": "THEO_IDE_LIBTHEO_VERIF",
        "enable": "none needed: no source hooks exist; harness translation units are compiled with -fno-access-control to read private VM state, the C18 scheduler uses -fsanitize=thread callbacks with its own runtime",
        "baseline_off_cmd": "cmake -G Ninja -S /repo -B /repo/_build && cmake --build /repo/_build && ctest --test-dir /repo/_build -j8 --timeout 900",
        "source_commits": [],
        "add_only": True,
    },
    "engines": ENGINES,
    "checks": checks,
    "not_applicable": na,
    "notes": "All deciding steps are bounded-exhaustive enumerations (inputs, operation histories, abstract program paths, schedules); see DESIGN.md. Known findings: known_findings.txt.",
}
json.dump(m, open(os.path.join(V, "MANIFEST.json"), "w"), indent=1)
print("checks:", [c["property_id"] for c in checks], "not_applicable:", [n["property_id"] for n in na])
