// Operation bodies shared by the C18 drivers (sequential histories, schedule exploration, free-running TSan pass).
// Every body takes private copies of its inputs and returns a field-by-field serialisation of everything it observed.
#pragma once
#include <map>
#include <string>
#include <vector>

#include "Compiler/include/compiler.hpp"
#include "Compiler/include/macro.hpp"
#include "Compiler/include/scan.hpp"
#include "VM/include/vm.hpp"

namespace det {
typedef std::map<std::string, std::string> Files;

inline std::string ser_program(const Theo::Program &p) {
  std::string o; char b[128];
  for (auto &in : p.code) {
    switch (in.op) {  // only the operands that are meaningful for the opcode
      case Theo::OpCode::ADD_CONST: snprintf(b, sizeof b, "ADD %d %d %d;", in.parameters.add.target, in.parameters.add.source, in.parameters.add.constant); break;
      case Theo::OpCode::CONST: snprintf(b, sizeof b, "CONST %d %d;", in.parameters.constant.target, in.parameters.constant.constant); break;
      case Theo::OpCode::TEST: snprintf(b, sizeof b, "TEST %d %d %d;", in.parameters.test.target, in.parameters.test.op1, in.parameters.test.op2); break;
      case Theo::OpCode::JMP: snprintf(b, sizeof b, "JMP %d;", in.parameters.jmp.offset); break;
      case Theo::OpCode::JMPC: snprintf(b, sizeof b, "JMPC %d %d;", in.parameters.jmpc.offset, in.parameters.jmpc.source); break;
      case Theo::OpCode::PREPARE_EXEC: snprintf(b, sizeof b, "PREP %d %d %d;", in.parameters.prepare.count, in.parameters.prepare.index, in.parameters.prepare.target); break;
      case Theo::OpCode::ARG: snprintf(b, sizeof b, "ARG %d %d;", in.parameters.arg.target, in.parameters.arg.source); break;
      case Theo::OpCode::EXEC: snprintf(b, sizeof b, "EXEC %d;", in.parameters.exec.entry); break;
      case Theo::OpCode::RET: snprintf(b, sizeof b, "RET %d;", in.parameters.ret.source); break;
      default: snprintf(b, sizeof b, "OP%d;", (int)in.op);
    }
    o += b;
  }
  o += "|maps:"; for (auto &m : p.stack_maps) { o += m.func_name + "{"; for (auto &r : m.map) o += std::to_string(r.first) + "=" + r.second + ","; o += "}"; }
  o += "|pb:"; for (auto &pb : p.potential_breaks) { o += pb.first.file + ":" + std::to_string(pb.first.line) + "["; for (int i : pb.second) o += std::to_string(i) + ","; o += "]"; }
  o += "|li:"; for (auto &li : p.line_info) o += std::to_string(li.first) + "=" + li.second.file + ":" + std::to_string(li.second.line) + ",";
  return o;
}
inline std::string ser_result(const Theo::CodegenResult &r) {
  std::string o = r.generated_correctly ? "OK|" : "ERR|";
  for (auto &e : r.errors) o += std::to_string((int)e.t) + "@" + e.file + ":" + std::to_string(e.line) + ":" + e.message + ";";
  o += "|req:"; for (auto &q : r.file_requests) o += q + ",";
  o += "|" + ser_program(r.code);
  return o;
}
inline std::string ser_vm(Theo::VM &vm) {
  std::string o = "done=" + std::to_string(vm.isDone()) + " step=" + std::to_string(vm.isSteppingModeEnabled());
  Theo::BreakPoint b = vm.getCurrentBreak(); o += " at=" + b.file + ":" + std::to_string(b.line) + " en=";
  for (auto &e : vm.getEnabledBreakPoints()) o += e.file + ":" + std::to_string(e.line) + ",";
  o += " acts=";
  for (auto &a : vm.getActivations()) { o += "{"; for (auto &v : a.getActivationVariables()) o += v.first + "=" + std::to_string(v.second) + ","; o += "}"; }
  return o;
}

inline Files src_S1() {
  return {{"lib", "DEFINE IF <V> THEN <P> ELSE <P> END AS\n #0 := 0; #1 := 1; #2 := $0;\n LOOP #2 DO #0 := 1; #1 := 0 END;\n LOOP #0 DO $1 END;\n LOOP #1 DO $2 END\nENDDEF\nPROGRAM add IN a, b OUT a DO\n LOOP b DO\n  a := a + 1\n END\nEND\n"},
          {"main", "INCLUDE \"lib\"\nx0 := 3;\nla: LOOP x0 DO\n x1 := RUN add WITH x1, x0 END\nEND;\nIF x1 THEN x2 := 1 ELSE x2 := 2 END;\nIF 0 THEN x3 := 1 ELSE x3 := RUN add WITH x2, 4 END END;\nx0 := x0 - 1;\nIF x0 = 0 THEN GOTO lb;\nGOTO la;\nlb: x4 := x1\n"}};
}
// the same text as S1 with the macro library shifted down two lines and renamed: every definition is textually identical
// but stands at another location (a cache keyed by text would serve stale positions)
inline Files src_S1_shifted() { Files f = src_S1(); Files g; g["lib2"] = "\n\n" + f["lib"]; std::string m = f["main"]; size_t p = m.find("\"lib\""); m.replace(p, 5, "\"lib2\""); g["main"] = "\n" + m; return g; }
inline Files src_S2() { return {{"main", "x0 := ;\nLOOP x1 DO x2 := RUN nothere WITH 1 END END;\nGOTO nowhere;\nDEFINE <P> AS foo ENDDEF\nx3 := 99999999999\n"}}; }
// numbers of every size in every numeric position (literal, +/- operand, IF constant, argument, PRIO, $n, #n)
inline Files src_S4() { return {{"main", "DEFINE PRIO 99999999999999999999 foo <V> AS x9 := $18446744073709551616 ; #9223372036854775808 := 1 ENDDEF\nx0 := 9223372036854775808;\nx1 := x0 + 340282366920938463463374607431768211456;\nla: IF x1 = 18446744073709551615 THEN GOTO la;\nfoo 4294967296\n"}}; }
inline Files src_S3() { return {{"main", "INCLUDE \"a\"\nINCLUDE \"missing\"\nx0 := RUN f WITH 2 END\n"}, {"a", "INCLUDE \"b\"\nINCLUDE \"a\"\n"}, {"b", "PROGRAM f IN q DO x0 := q + 1 END\n"}}; }

inline std::string op_compile(const Files &f) { Files copy = f; return ser_result(Theo::compile(copy, "main")); }
inline std::string op_run_vm() { Theo::CodegenResult r = Theo::compile(src_S1(), "main"); Theo::VM vm(r.code); long n = 0; while (!vm.isDone() && n++ < 200000) vm.executeSingle(); return ser_vm(vm) + " n=" + std::to_string(n); }
inline std::string op_debug_vm(std::vector<Theo::VM *> *keep) {
  Theo::CodegenResult r = Theo::compile(src_S1(), "main"); Theo::VM *vm = new Theo::VM(r.code);
  vm->setBreakPoint("main", 4, true); vm->setBreakPoint("lib", 9, true); vm->execute(); std::string o = ser_vm(*vm); vm->execute(); o += "/" + ser_vm(*vm); vm->setSteppingMode(true); vm->execute(); o += "/" + ser_vm(*vm);
  if (keep) keep->push_back(vm); else delete vm;
  return o;
}
inline std::string op_scan() { Theo::ScanResult s = Theo::scan(src_S3(), "main"); std::string o; for (auto &t : s.toks) o += std::to_string((int)t.t) + ":" + t.text + "@" + t.file + ":" + std::to_string(t.line) + ","; for (auto &e : s.errors) o += "E" + std::to_string((int)e.t) + e.msg + e.file + std::to_string(e.line); return o; }
inline std::string op_macros() {
  Theo::ScanResult s = Theo::scan(src_S1(), "main"); Theo::MacroExtractionResult m = Theo::extract_macros(s.toks); Theo::MacroApplicationResult a = Theo::apply_macros(m.tokens, m.macros, 64);
  std::string o; for (auto &t : a.transformed_sequence) o += t.text + "@" + t.file + ":" + std::to_string(t.line) + " "; for (auto &e : a.errors) o += "E" + e.msg; return o;
}
// compilations whose main file is absent from the map, under the names other operations use for real files ("lib",
// "a", "main"): whatever a failed lookup leaves behind would be keyed by these names
inline std::string op_missing_main() {
  std::string o = ser_result(Theo::compile(Files{}, "lib")) + "#" + ser_result(Theo::compile(Files{{"main", "x0 := 1\n"}}, "a")) + "#" + ser_result(Theo::compile(Files{{"lib", "x0 := 2\n"}}, "main"));
  Theo::ScanResult s = Theo::scan(Files{}, "b"); o += "#" + std::to_string(s.toks.size()) + "/" + std::to_string(s.errors.size());
  return o;
}
// a source whose only faults are jumps to labels that are not set (inside a program body, across bodies, at root level)
inline Files src_S5() { return {{"main", "PROGRAM p IN a DO\n GOTO nolabel;\n x0 := a\nEND\nPROGRAM q IN a DO\n inq: x0 := a;\n IF a = 0 THEN GOTO inroot\nEND\ninroot: x1 := RUN p WITH 1 END;\nGOTO inq\n"}}; }
// A corpus of small compilations that collide on every kind of name the compiler keys anything by (file names main/lib,
// program name f, labels la/lb, macro pattern foo, positions): compiled one after the other in one process, each must give
// exactly the result it gives when compiled first in a fresh process.
struct Comp { Files files; std::string main; const char *what; };
inline const std::vector<Comp> &corpus() {
  static std::vector<Comp> C;
  if (!C.empty()) return C;
  auto M = [](const char *src, const char *what) { return Comp{{{"main", src}}, "main", what}; };
  std::string F1 = "PROGRAM f IN a DO\n x0 := a\nEND\n";
  C = {
      M("x0 := 1\n", "one assignment"),
      M("la: x0 := x0 + 1;\nIF x0 = 3 THEN GOTO lb;\nGOTO la;\nlb: x1 := 2\n", "labels la, lb"),
      M("x0 := x0 + 1;\nIF x0 = 3 THEN GOTO lb;\nGOTO la;\nlb: x1 := 2\n", "la never set"),
      M("la: x0 := x0 + 1;\nIF x0 = 3 THEN GOTO lb;\nGOTO la;\nx1 := 2\n", "lb never set"),
      M("la: x0 := 1;\nla: x1 := 2\n", "la set twice"),
      M("PROGRAM f IN a DO\n x0 := a\nEND\nx0 := RUN f WITH 2 END\n", "f(a)"),
      M("PROGRAM f IN a, b DO\n x0 := b\nEND\nx0 := RUN f WITH 1, 2 END\n", "f(a,b)"),
      M("x0 := RUN f WITH 2 END\n", "f undefined"),
      M("PROGRAM f IN a DO\n x0 := a\nEND\nx0 := RUN f WITH 1, 2 END\n", "f called with a wrong argument count"),
      M("PROGRAM f IN a DO\n x0 := a\nEND\nPROGRAM f IN a DO\n x0 := a + 5\nEND\nx0 := RUN f WITH 2 END\n", "f defined twice"),
      M("PROGRAM f IN a, a DO\n x0 := a\nEND\nx0 := 1\n", "duplicate parameter"),
      M("PROGRAM f IN a DO\n x0 := RUN f WITH a END\nEND\nx0 := 1\n", "f calls itself"),
      M("PROGRAM f IN a DO\n la: x0 := a;\n GOTO lb\nEND\nlb: x0 := 1;\nGOTO la\n", "labels used across bodies"),
      M("x0 := ;\n", "syntax error"),
      M("x0 := 99999999999\n", "literal out of range"),
      M("DEFINE foo <V> AS x1 := $0 ENDDEF\nfoo 3\n", "macro foo v1"),
      M("DEFINE foo <V> AS x2 := $0 ENDDEF\nfoo 3\n", "macro foo v2 (same pattern, same position, other body)"),
      M("DEFINE foo <ID> AS #0 := $0; $0 := #0 ENDDEF\nfoo x1;\nfoo x2\n", "macro with a temporary, used twice"),
      M("DEFINE <P> AS foo ENDDEF\nx0 := 1\n", "pattern rejected"),
      M("DEFINE foo AS foo ENDDEF\nfoo\n", "self-reproducing macro"),
      M("DEFINE PRIO 99999999999 foo AS x1 := 1 ENDDEF\nfoo\n", "priority out of range"),
      M("DEFINE PRIO 2 foo <V> AS x1 := $0 ENDDEF\nDEFINE PRIO 1 foo 3 AS x1 := 9 ENDDEF\nfoo 3\n", "two priorities"),
      Comp{{{"main", "INCLUDE \"lib\"\nx0 := RUN f WITH 1 END\n"}, {"lib", "PROGRAM f IN a DO\n x0 := a + 1\nEND\n"}}, "main", "include lib v1"},
      Comp{{{"main", "INCLUDE \"lib\"\nx0 := RUN f WITH 1 END\n"}, {"lib", "PROGRAM f IN a DO\n x0 := a + 2\nEND\n"}}, "main", "include lib v2 (same names, other content)"},
      Comp{{{"main", "INCLUDE \"lib\"\nx0 := RUN f WITH 1 END\n"}}, "main", "lib missing"},
      Comp{{{"main", "INCLUDE \"lib\"\nx0 := 1\n"}, {"lib", "INCLUDE \"main\"\nx1 := 2\n"}}, "main", "include cycle main-lib"},
      M("INCLUDE \"main\"\nx0 := 1\n", "self include"),
      Comp{{}, "main", "main absent"},
      Comp{{}, "lib", "main absent, named lib"},
      Comp{{{"lib", "INCLUDE \"main\"\nx0 := 1\n"}, {"main", "x1 := 2\n"}}, "lib", "roles of main and lib swapped"},
      M("INCLUDE x0\n", "include without a file name"),
      M("x0 := 1 ?\n", "unknown character"),
      M("", "empty source"),
      M("x0 := 3;\nWHILE x0 != 0 DO\n x0 := x0 - 1\nEND\n", "while loop"),
      M("x0 := 2;\nLOOP x0 DO\n LOOP x0 DO\n  x1 := x1 + 1\n END\nEND\n", "loop nest (hidden counters)"),
      Comp{src_S1(), "main", "S1"}, Comp{src_S1_shifted(), "main", "S1 shifted"}, Comp{src_S2(), "main", "S2"}, Comp{src_S3(), "main", "S3"}, Comp{src_S4(), "main", "S4"}, Comp{src_S5(), "main", "S5"},
  };
  return C;
}
inline std::string run_corpus(int i) {
  const Comp &c = corpus()[i]; Files copy = c.files; Theo::CodegenResult r = Theo::compile(copy, c.main); std::string o = ser_result(r);
  if (r.generated_correctly) { Theo::VM vm(r.code); long n = 0; while (!vm.isDone() && n++ < 20000) vm.executeSingle(); o += "|run:" + ser_vm(vm); }
  return o;
}
static const int NOPS = 11;
inline const char *op_name(int i) { static const char *n[] = {"compile(S1: loops+macro with temporaries+calls)", "compile(S2: three kinds of errors)", "compile(S3: includes+missing file)", "run VM on S1", "leave a half-run VM with breakpoints alive", "scan(S3)", "extract+apply macros(S1)", "compile(S1 with identical definitions at other lines/files)", "compile(S4: out-of-range numbers in every numeric position)", "compile/scan with an absent main file named like files of other operations", "compile(S5: jumps to labels that are never set)"}; return n[i]; }
inline std::string run_op(int i, std::vector<Theo::VM *> *keep) {
  switch (i) { case 0: return op_compile(src_S1()); case 1: return op_compile(src_S2()); case 2: return op_compile(src_S3()); case 3: return op_run_vm(); case 4: return op_debug_vm(keep); case 5: return op_scan(); case 6: return op_macros(); case 7: return op_compile(src_S1_shifted()); case 8: return op_compile(src_S4()); case 9: return op_missing_main(); default: return op_compile(src_S5()); }
}
}  // namespace det
