// Operation bodies shared by the C18 drivers (sequential histories, schedule exploration, free-running TSan pass).
// Every body takes private copies of its inputs and returns a field-by-field serialisation of everything it observed.
#pragma once
#include <map>
#include <string>
#include <vector>

#include "Compiler/include/compiler.hpp"
#include "Compiler/include/macro.hpp"
#include "Compiler/include/scan.hpp"
#include "VM/include/vm.hpp"

namespace det {
typedef std::map<std::string, std::string> Files;

inline std::string ser_program(const Theo::Program &p) {
  std::string o; char b[128];
  for (auto &in : p.code) {
    switch (in.op) {  // only the operands that are meaningful for the opcode
      case Theo::OpCode::ADD_CONST: snprintf(b, sizeof b, "ADD %d %d %d;", in.parameters.add.target, in.parameters.add.source, in.parameters.add.constant); break;
      case Theo::OpCode::CONST: snprintf(b, sizeof b, "CONST %d %d;", in.parameters.constant.target, in.parameters.constant.constant); break;
      case Theo::OpCode::TEST: snprintf(b, sizeof b, "TEST %d %d %d;", in.parameters.test.target, in.parameters.test.op1, in.parameters.test.op2); break;
      case Theo::OpCode::JMP: snprintf(b, sizeof b, "JMP %d;", in.parameters.jmp.offset); break;
      case Theo::OpCode::JMPC: snprintf(b, sizeof b, "JMPC %d %d;", in.parameters.jmpc.offset, in.parameters.jmpc.source); break;
      case Theo::OpCode::PREPARE_EXEC: snprintf(b, sizeof b, "PREP %d %d %d;", in.parameters.prepare.count, in.parameters.prepare.index, in.parameters.prepare.target); break;
      case Theo::OpCode::ARG: snprintf(b, sizeof b, "ARG %d %d;", in.parameters.arg.target, in.parameters.arg.source); break;
      case Theo::OpCode::EXEC: snprintf(b, sizeof b, "EXEC %d;", in.parameters.exec.entry); break;
      case Theo::OpCode::RET: snprintf(b, sizeof b, "RET %d;", in.parameters.ret.source); break;
      default: snprintf(b, sizeof b, "OP%d;", (int)in.op);
    }
    o += b;
  }
  o += "|maps:"; for (auto &m : p.stack_maps) { o += m.func_name + "{"; for (auto &r : m.map) o += std::to_string(r.first) + "=" + r.second + ","; o += "}"; }
  o += "|pb:"; for (auto &pb : p.potential_breaks) { o += pb.first.file + ":" + std::to_string(pb.first.line) + "["; for (int i : pb.second) o += std::to_string(i) + ","; o += "]"; }
  o += "|li:"; for (auto &li : p.line_info) o += std::to_string(li.first) + "=" + li.second.file + ":" + std::to_string(li.second.line) + ",";
  return o;
}
inline std::string ser_result(const Theo::CodegenResult &r) {
  std::string o = r.generated_correctly ? "OK|" : "ERR|";
  for (auto &e : r.errors) o += std::to_string((int)e.t) + "@" + e.file + ":" + std::to_string(e.line) + ":" + e.message + ";";
  o += "|req:"; for (auto &q : r.file_requests) o += q + ",";
  o += "|" + ser_program(r.code);
  return o;
}
inline std::string ser_vm(Theo::VM &vm) {
  std::string o = "done=" + std::to_string(vm.isDone()) + " step=" + std::to_string(vm.isSteppingModeEnabled());
  Theo::BreakPoint b = vm.getCurrentBreak(); o += " at=" + b.file + ":" + std::to_string(b.line) + " en=";
  for (auto &e : vm.getEnabledBreakPoints()) o += e.file + ":" + std::to_string(e.line) + ",";
  o += " acts=";
  for (auto &a : vm.getActivations()) { o += "{"; for (auto &v : a.getActivationVariables()) o += v.first + "=" + std::to_string(v.second) + ","; o += "}"; }
  return o;
}

inline Files src_S1() {
  return {{"lib", "DEFINE IF <V> THEN <P> ELSE <P> END AS\n #0 := 0; #1 := 1; #2 := $0;\n LOOP #2 DO #0 := 1; #1 := 0 END;\n LOOP #0 DO $1 END;\n LOOP #1 DO $2 END\nENDDEF\nPROGRAM add IN a, b OUT a DO\n LOOP b DO\n  a := a + 1\n END\nEND\n"},
          {"main", "INCLUDE \"lib\"\nx0 := 3;\nla: LOOP x0 DO\n x1 := RUN add WITH x1, x0 END\nEND;\nIF x1 THEN x2 := 1 ELSE x2 := 2 END;\nIF 0 THEN x3 := 1 ELSE x3 := RUN add WITH x2, 4 END END;\nx0 := x0 - 1;\nIF x0 = 0 THEN GOTO lb;\nGOTO la;\nlb: x4 := x1\n"}};
}
// the same text as S1 with the macro library shifted down two lines and renamed: every definition is textually identical
// but stands at another location (a cache keyed by text would serve stale positions)
inline Files src_S1_shifted() { Files f = src_S1(); Files g; g["lib2"] = "\n\n" + f["lib"]; std::string m = f["main"]; size_t p = m.find("\"lib\""); m.replace(p, 5, "\"lib2\""); g["main"] = "\n" + m; return g; }
inline Files src_S2() { return {{"main", "x0 := ;\nLOOP x1 DO x2 := RUN nothere WITH 1 END END;\nGOTO nowhere;\nDEFINE <P> AS foo ENDDEF\nx3 := 99999999999\n"}}; }
// numbers of every size in every numeric position (literal, +/- operand, IF constant, argument, PRIO, $n, #n)
inline Files src_S4() { return {{"main", "DEFINE PRIO 99999999999999999999 foo <V> AS x9 := $18446744073709551616 ; #9223372036854775808 := 1 ENDDEF\nx0 := 9223372036854775808;\nx1 := x0 + 340282366920938463463374607431768211456;\nla: IF x1 = 18446744073709551615 THEN GOTO la;\nfoo 4294967296\n"}}; }
inline Files src_S3() { return {{"main", "INCLUDE \"a\"\nINCLUDE \"missing\"\nx0 := RUN f WITH 2 END\n"}, {"a", "INCLUDE \"b\"\nINCLUDE \"a\"\n"}, {"b", "PROGRAM f IN q DO x0 := q + 1 END\n"}}; }

inline std::string op_compile(const Files &f) { Files copy = f; return ser_result(Theo::compile(copy, "main")); }
inline std::string op_run_vm() { Theo::CodegenResult r = Theo::compile(src_S1(), "main"); Theo::VM vm(r.code); long n = 0; while (!vm.isDone() && n++ < 200000) vm.executeSingle(); return ser_vm(vm) + " n=" + std::to_string(n); }
inline std::string op_debug_vm(std::vector<Theo::VM *> *keep) {
  Theo::CodegenResult r = Theo::compile(src_S1(), "main"); Theo::VM *vm = new Theo::VM(r.code);
  vm->setBreakPoint("main", 4, true); vm->setBreakPoint("lib", 9, true); vm->execute(); std::string o = ser_vm(*vm); vm->execute(); o += "/" + ser_vm(*vm); vm->setSteppingMode(true); vm->execute(); o += "/" + ser_vm(*vm);
  if (keep) keep->push_back(vm); else delete vm;
  return o;
}
inline std::string op_scan() { Theo::ScanResult s = Theo::scan(src_S3(), "main"); std::string o; for (auto &t : s.toks) o += std::to_string((int)t.t) + ":" + t.text + "@" + t.file + ":" + std::to_string(t.line) + ","; for (auto &e : s.errors) o += "E" + std::to_string((int)e.t) + e.msg + e.file + std::to_string(e.line); return o; }
inline std::string op_macros() {
  Theo::ScanResult s = Theo::scan(src_S1(), "main"); Theo::MacroExtractionResult m = Theo::extract_macros(s.toks); Theo::MacroApplicationResult a = Theo::apply_macros(m.tokens, m.macros, 64);
  std::string o; for (auto &t : a.transformed_sequence) o += t.text + "@" + t.file + ":" + std::to_string(t.line) + " "; for (auto &e : a.errors) o += "E" + e.msg; return o;
}
static const int NOPS = 9;
inline const char *op_name(int i) { static const char *n[] = {"compile(S1: loops+macro with temporaries+calls)", "compile(S2: three kinds of errors)", "compile(S3: includes+missing file)", "run VM on S1", "leave a half-run VM with breakpoints alive", "scan(S3)", "extract+apply macros(S1)", "compile(S1 with identical definitions at other lines/files)", "compile(S4: out-of-range numbers in every numeric position)"}; return n[i]; }
inline std::string run_op(int i, std::vector<Theo::VM *> *keep) {
  switch (i) { case 0: return op_compile(src_S1()); case 1: return op_compile(src_S2()); case 2: return op_compile(src_S3()); case 3: return op_run_vm(); case 4: return op_debug_vm(keep); case 5: return op_scan(); case 6: return op_macros(); case 7: return op_compile(src_S1_shifted()); default: return op_compile(src_S4()); }
}
}  // namespace det
