// R-PARSE: reference front end for the core language (documented LL(1) grammar + static rules + built-in +/- sugar).
// Written from the grammar comment of parse.cpp and the README; shares no code with libtheo.
#pragma once
#include <map>
#include <set>
#include <string>
#include <vector>

#include "ref_lex.hpp"

namespace ref {

struct Pos { std::string file; int line = 0; bool operator==(const Pos &o) const { return file == o.file && line == o.line; } };

struct Val {
  enum T { VAR, CONST, ADDC, CALL } t = VAR;
  std::string var;          // VAR, ADDC
  std::string lit;          // CONST / ADDC literal text
  long long c = 0;          // CONST value / ADDC signed delta (saturated at 2^62)
  std::string callee; int def = -1; std::vector<Val> args;  // CALL (def resolved statically)
};

struct Stmt {
  enum T { ASSIGN, LOOP, WHILE, GOTO, IF, STOP } t = ASSIGN;
  std::vector<std::string> labels;
  std::string var;          // assign target / loop bound / while var / if var
  Val val;                  // assign
  std::vector<Stmt> body;   // loop / while
  std::string target;       // goto / if
  std::string lit; long long c = 0;  // if constant
  Pos pos, endpos;          // first token of the statement (labels included); END token of a loop
  int id = 0;               // unique per program (loop counters)
};

struct Def { std::string name; std::vector<std::string> params; bool has_out = false; std::string out = "x0"; std::vector<Stmt> body; Pos namepos, endpos; };
struct Prog { std::vector<Def> defs; std::vector<Stmt> main; };

struct FrontResult {
  bool accept = false;
  std::string why;                 // first reason for rejection
  bool excluded = false;           // outside the domain the documentation defines (dup labels, dup params, DEFINE, reserved names)
  std::string excluded_why;
  bool has_define = false;
  Prog prog;
  std::vector<Tok> toks;           // after sugar
};

inline long long lit_value(const std::string &s) {  // saturating
  long long v = 0;
  for (char ch : s) { v = v * 10 + (ch - '0'); if (v > (1LL << 50)) v = (1LL << 50); }
  return v;
}
static const long long LIT_LIMIT = 2147483647LL;  // literals must be < 2^31-1

// built-in sugar: ID (+|-) INT  ->  RUN __INC__/__DEC__ WITH ID , INT END   (leftmost, repeated; matches cannot overlap)
inline std::vector<Tok> apply_sugar(const std::vector<Tok> &in, long *count = nullptr) {
  std::vector<Tok> out; long n = 0;
  for (size_t i = 0; i < in.size();) {
    if (i + 2 < in.size() && in[i].k == ID && in[i + 1].k == NV_ID && (in[i + 1].text == "+" || in[i + 1].text == "-") && in[i + 2].k == INT) {
      bool inc = in[i + 1].text == "+"; int l = inc ? 1 : 2;
      out.push_back({RUN, "RUN", "__standards__", l});
      out.push_back({ID, inc ? "__INC__" : "__DEC__", "__standards__", l});
      out.push_back({WITH, "WITH", "__standards__", l});
      out.push_back(in[i]);
      out.push_back({ARGSEP, ",", "__standards__", l});
      out.push_back(in[i + 2]);
      out.push_back({END, "END", "__standards__", l});
      i += 3; n++;
    } else out.push_back(in[i++]);
  }
  if (count) *count = n;
  return out;
}

struct Parser {
  const std::vector<Tok> &t; size_t p = 0; bool ok = true; std::string why; int nextid = 1;
  Parser(const std::vector<Tok> &t) : t(t) {}
  int la() const { return t[p].k; }
  void fail(const std::string &m) { if (ok) { ok = false; why = m + " at token " + std::to_string(p) + " '" + t[p].text + "'"; } }
  bool eat(int k) { if (!ok) return false; if (la() != k) { fail("expected kind " + std::to_string(k)); return false; } if (la() != T_EOF) p++; return true; }
  Pos pos() const { return {t[p].file, t[p].line}; }

  Val value() {
    Val v;
    if (!ok) return v;
    if (la() == ID) { v.t = Val::VAR; v.var = t[p].text; p++; return v; }
    if (la() == INT) { v.t = Val::CONST; v.lit = t[p].text; v.c = lit_value(v.lit); p++; return v; }
    if (la() == RUN) {
      p++; v.t = Val::CALL;
      if (la() != ID) { fail("expected program name"); return v; }
      v.callee = t[p].text; p++;
      if (!eat(WITH)) return v;
      if (la() == ID || la() == INT || la() == RUN) {
        v.args.push_back(value());
        while (ok && la() == ARGSEP) { p++; v.args.push_back(value()); }
      }
      eat(END);
      // the desugared core form of the built-in operations
      if (ok && (v.callee == "__INC__" || v.callee == "__DEC__") && v.args.size() == 2 && v.args[0].t == Val::VAR && v.args[1].t == Val::CONST) {
        Val a; a.t = Val::ADDC; a.var = v.args[0].var; a.lit = v.args[1].lit; a.c = (v.callee == "__INC__") ? v.args[1].c : -v.args[1].c; return a;
      }
      return v;
    }
    fail("expected value");
    return v;
  }

  // P -> statement { ; statement }
  std::vector<Stmt> seq() {
    std::vector<Stmt> out;
    for (;;) {
      if (!ok) return out;
      out.push_back(stmt());
      if (!ok) return out;
      if (la() == PROGSEP) { p++; continue; }
      return out;
    }
  }

  Stmt stmt() {
    Stmt s; s.pos = pos(); s.id = nextid++;
    // labels:  id ':' P   (a label needs a following statement)
    while (ok && la() == ID && t[p + 1].k == LABELDEC) { s.labels.push_back(t[p].text); p += 2; }
    if (!ok) return s;
    switch (la()) {
      case ID: {
        s.t = Stmt::ASSIGN; s.var = t[p].text; p++;
        if (!eat(ASSIGN)) return s;
        s.val = value();
        return s;
      }
      case LOOP: case WHILE: {
        s.t = la() == LOOP ? Stmt::LOOP : Stmt::WHILE; p++;
        if (la() != ID) { fail("expected loop variable"); return s; }
        s.var = t[p].text; p++;
        if (s.t == Stmt::WHILE && !eat(NEQ_ZERO)) return s;
        if (!eat(DO)) return s;
        s.body = seq();
        if (!ok) return s;
        s.endpos = pos();
        eat(END);
        return s;
      }
      case GOTO: {
        s.t = Stmt::GOTO; p++;
        if (la() != ID) { fail("expected label"); return s; }
        s.target = t[p].text; p++; return s;
      }
      case IF: {
        s.t = Stmt::IF; p++;
        if (la() != ID) { fail("expected variable"); return s; }
        s.var = t[p].text; p++;
        if (!eat(EQ)) return s;
        if (la() != INT) { fail("expected integer"); return s; }
        s.lit = t[p].text; s.c = lit_value(s.lit); p++;
        if (!eat(THEN)) return s;
        if (!eat(GOTO)) return s;
        if (la() != ID) { fail("expected label"); return s; }
        s.target = t[p].text; p++; return s;
      }
      case STOP: { s.t = Stmt::STOP; p++; return s; }
      default: fail("expected statement"); return s;
    }
  }

  Prog program() {
    Prog pr;
    while (ok && la() == PROGRAM) {
      Def d; p++;
      if (la() != ID) { fail("expected program name"); break; }
      d.name = t[p].text; d.namepos = pos(); p++;
      if (la() == IN) {
        p++;
        for (;;) {
          if (la() != ID) { fail("expected parameter"); break; }
          d.params.push_back(t[p].text); p++;
          if (la() == ARGSEP) { p++; continue; }
          break;
        }
        if (!ok) break;
        if (la() == OUT) { p++; if (la() != ID) { fail("expected out variable"); break; } d.has_out = true; d.out = t[p].text; p++; }
      }
      if (!eat(DO)) break;
      d.body = seq();
      if (!ok) break;
      d.endpos = pos();
      if (!eat(END)) break;
      pr.defs.push_back(d);
    }
    if (!ok) return pr;
    pr.main = seq();
    if (ok && la() != T_EOF) fail("trailing input");
    return pr;
  }
};

inline void collect_labels(const std::vector<Stmt> &b, std::vector<std::string> &defs, std::vector<std::string> &uses) {
  for (auto &s : b) {
    for (auto &l : s.labels) defs.push_back(l);
    if (s.t == Stmt::GOTO || s.t == Stmt::IF) uses.push_back(s.target);
    collect_labels(s.body, defs, uses);
  }
}

struct Static {
  FrontResult &r; const Prog &pr;
  void reject(const std::string &w) { if (r.why.empty()) r.why = w; r.accept = false; }
  void val(Val &v, int ncallable) {
    if (v.t == Val::CONST) { if (v.c >= LIT_LIMIT) reject("literal out of range " + v.lit); return; }
    if (v.t == Val::ADDC) { if (lit_value(v.lit) >= LIT_LIMIT) reject("literal out of range " + v.lit); return; }
    if (v.t == Val::CALL) {
      for (auto &a : v.args) val(a, ncallable);
      if (v.callee == "__INC__" || v.callee == "__DEC__") { r.excluded = true; r.excluded_why = "reserved name used as program"; }
      int found = -1;
      for (int i = 0; i < ncallable; i++) if (pr.defs[i].name == v.callee) found = i;  // latest earlier definition
      if (found < 0) { reject("unknown program " + v.callee); return; }
      if (pr.defs[found].params.size() != v.args.size()) { reject("arity mismatch calling " + v.callee); return; }
      v.def = found;
    }
  }
  void stmts(std::vector<Stmt> &b, int ncallable) {
    for (auto &s : b) {
      if (s.t == Stmt::ASSIGN) val(s.val, ncallable);
      if (s.t == Stmt::IF && s.c >= LIT_LIMIT) reject("literal out of range " + s.lit);
      stmts(s.body, ncallable);
    }
  }
  void routine(std::vector<Stmt> &b, int ncallable, const std::string &name) {
    std::vector<std::string> defs, uses; collect_labels(b, defs, uses);
    std::set<std::string> ds(defs.begin(), defs.end());
    if (ds.size() != defs.size()) { r.excluded = true; r.excluded_why = "duplicate label in " + name; }
    for (auto &u : uses) if (!ds.count(u)) reject("jump to unknown label " + u + " in " + name);
    stmts(b, ncallable);
  }
};

// tokens = scanner output (with EOF) of a source WITHOUT user macro definitions, standard macros not yet applied
inline FrontResult front(const std::vector<Tok> &scanned) {
  FrontResult r;
  for (auto &t : scanned) if (t.k == DEFINE) { r.has_define = true; r.excluded = true; r.excluded_why = "user macro definition"; }
  r.toks = apply_sugar(scanned);
  Parser ps(r.toks);
  r.prog = ps.program();
  if (!ps.ok) { r.accept = false; r.why = ps.why; return r; }
  r.accept = true;
  Static st{r, r.prog};
  for (size_t i = 0; i < r.prog.defs.size(); i++) {
    Def &d = r.prog.defs[i];
    std::set<std::string> ps2(d.params.begin(), d.params.end());
    if (ps2.size() != d.params.size()) { r.excluded = true; r.excluded_why = "duplicate parameter name"; }
    if (d.name == "__INC__" || d.name == "__DEC__") { r.excluded = true; r.excluded_why = "reserved name defined"; }
    st.routine(d.body, (int)i, d.name);
  }
  st.routine(r.prog.main, (int)r.prog.defs.size(), "#root");
  return r;
}

}  // namespace ref
