// Engine "scan": C14 (scanner faithful to the text) and C15 (include resolution).
#include "driver_main.hpp"
#include "real.hpp"

using real::Files;

struct Case {
  Files files; std::string main;
  std::string json() const { return "{\"kind\":\"scan\",\"files\":" + vf::jmap(files) + ",\"main\":" + vf::jstr(main) + "}"; }
  uint64_t hash() const { uint64_t h = vf::fnv(main); for (auto &p : files) { h = vf::fnv(p.first, h); h = vf::fnv(p.second, h); } return h; }
  std::string key() const { std::string k; for (auto &p : files) k += p.first + "=" + p.second + "|"; k += "main=" + main; for (auto &c : k) if (c == '\n') c = ' '; return k; }
  static Case from(const vf::J &j) { return {j["files"].strmap(), j["main"].s}; }
};
typedef std::function<void(const Case &)> CB;
typedef drv::Level<Case> Level;
static Case single(const std::string &src) { return {{{"main", src}}, "main"}; }

static std::string tokstr(const ref::Tok &t) { return std::to_string(t.k) + ":" + vf::jstr(t.text) + "@" + t.file + ":" + std::to_string(t.line); }

// ---- C14 ---------------------------------------------------------------------------------------------------------------
static void oracle_C14(const Case &c, vf::Stats &st) {
  st.add("cases");
  ref::ScanOut want = ref::scan(c.files, c.main);
  Theo::ScanResult got = Theo::scan(c.files, c.main);
  std::string cj = c.json(), key = c.key();
  size_t n_exact = want.exact_prefix >= 0 ? (size_t)want.exact_prefix : want.toks.size();
  if (want.exact_prefix < 0 && got.toks.size() != want.toks.size()) {
    st.violation(key, "token count " + std::to_string(got.toks.size()) + ", reference " + std::to_string(want.toks.size()) + (got.toks.size() && want.toks.size() ? "; last real " + tokstr(real::totok(got.toks.back())) : ""), cj); return; }
  for (size_t i = 0; i < n_exact; i++) {
    if (i >= got.toks.size()) { st.violation(key, "stream ends after " + std::to_string(i) + " tokens, reference continues with " + tokstr(want.toks[i]), cj); return; }
    ref::Tok g = real::totok(got.toks[i]); const ref::Tok &w = want.toks[i];
    bool eof_open = (w.k == ref::T_EOF);  // the label of the end-of-file token itself is left open by the property
    if (g.k != w.k || g.text != w.text || (!eof_open && (g.file != w.file || g.line != w.line))) { st.violation(key, "token " + std::to_string(i) + " is " + tokstr(g) + ", reference " + tokstr(w), cj); return; }
  }
  size_t eofs = 0; for (auto &t : got.toks) if (t.t == Theo::Token::T_EOF) eofs++;
  if (eofs != 1 || got.toks.empty() || got.toks.back().t != Theo::Token::T_EOF) { st.violation(key, "stream has " + std::to_string(eofs) + " end-of-file tokens / does not end with one", cj); return; }
  // Which label the end-of-file token itself carries is left open, but it stands for the end of the stream: it repeats the
  // label of the last token or names a line of the main file (where the stream ends) - not some other place
  if (got.toks.size() >= 2 && want.exact_prefix < 0 && c.files.count(c.main)) {
    const Theo::Token &e = got.toks.back(), &l = got.toks[got.toks.size() - 2];
    long long mainlines = 1; for (char ch : c.files.at(c.main)) if (ch == '\n') mainlines++;
    bool same_as_last = e.file == l.file && e.line == l.line, in_main = e.file == c.main && e.line >= 1 && e.line <= mainlines;
    if (!same_as_last && !in_main) { st.violation(key, "the end-of-file token is labelled " + e.file + ":" + std::to_string(e.line) + ", which is neither the label of the last token (" + l.file + ":" + std::to_string(l.line) + ") nor a line of the main file", cj); return; }
    st.add("eof_label_plausible");
  }
  if (want.toks.size() > 1) st.nontrivial.insert(c.hash());
  uint64_t h = 0; for (auto &t : want.toks) h = vf::mix(h ^ (uint64_t)t.k * 31 ^ vf::fnv(t.text)); st.outcomes.insert(h);
  st.add("tokens_compared", (long long)n_exact);
  if (want.toks.size() >= 4) st.sample("{\"files\":" + vf::jmap(c.files) + ",\"tokens\":" + std::to_string(want.toks.size()) + "}", 2);
}

static Level fam_bytes(int k) {
  return {"bytes^<=" + std::to_string(k), [=](const CB &cb) {
            std::string A = "a0 \n:=!<>$#\"/E"; A.resize(14);
            for (int n = 0; n <= k; n++) { std::vector<int> ix(n, 0);
              for (;;) { std::string s; for (int i = 0; i < n; i++) s += A[ix[i]]; cb(single(s));
                int i = 0; while (i < n && ++ix[i] == (int)A.size()) ix[i++] = 0; if (i == n) break; } } }};
}
static Level fam_bytes2(int k) {  // second alphabet: other significant characters, incl. NUL, CR, high bytes
  return {"bytes2^<=" + std::to_string(k), [=](const CB &cb) {
            std::string A = std::string("\0", 1) + "\r\x80\xff_D;,()\tN 1"; A.resize(14);
            for (int n = 0; n <= k; n++) { std::vector<int> ix(n, 0);
              for (;;) { std::string s; for (int i = 0; i < n; i++) s += A[ix[i]]; cb(single(s));
                int i = 0; while (i < n && ++ix[i] == (int)A.size()) ix[i++] = 0; if (i == n) break; } } }};
}
static std::vector<std::string> pieces() {
  std::vector<std::string> p;
  for (auto &r : ref::rules()) for (auto &a : r.alts) { p.push_back(a); if (a.size() > 1) { p.push_back(a.substr(0, a.size() - 1)); p.push_back(a.substr(1)); } p.push_back(a + "x"); p.push_back(a + "0"); }
  for (auto s : {"x", "x0", "_a", "Abc_9", "0", "12", "01", "007", "9a", "!= 0", "!=0", "! =", "!=  0", "!=\n0", "END  DEFINE", "END\nDEFINE", "END DEFINEx", "$0", "$", "$12", "$01", "#1", "#", "#01", "\"f\"", "\"a b\"", "\"\"", "\"un", "\"two\nlines\"", "// c", "//", "/ /", "// c\n", "/", "<", ">", "<P", "<P >", "< P>", "<PROGRAM>", "<Prog>", "<VAL>", "<value>", "<ID>", "<Id>", "<INT>", "<Int>", "<int>", "<ARGS>", "<a>", "<A>", "<x>", "\t", "\r", "\x80", "@", "+", "-", "*", "{", "\\", "'"}) p.push_back(s);
  std::sort(p.begin(), p.end()); p.erase(std::unique(p.begin(), p.end()), p.end());
  std::vector<std::string> q; for (auto &s : p) if (!s.empty()) q.push_back(s); return q;
}
static Level fam_pieces(int n, size_t poolcap) {
  return {"pieces^" + std::to_string(n) + "(pool " + (poolcap ? std::to_string(poolcap) : std::string("all")) + ")", [=](const CB &cb) {
            std::vector<std::string> P = pieces(); if (poolcap && P.size() > poolcap) { std::vector<std::string> r; for (size_t i = 0; i < poolcap; i++) r.push_back(P[i * P.size() / poolcap]); P = r; }
            std::vector<std::string> seps = {"", " ", "\n"};
            for (auto &a : P) { cb(single(a)); if (n < 2) continue;
              for (auto &b : P) for (auto &s1 : seps) { cb(single(a + s1 + b)); if (n < 3) continue;
                for (auto &c3 : P) for (auto &s2 : seps) cb(single(a + s1 + b + s2 + c3)); } } }};
}

// ---- include graphs (C15, and file/line labels for C14) --------------------------------------------------------------
// each file: marker [slot marker [slot marker]]; slot in {include "main"|"a"|"b"|("c")|"x"|"y", include <id>, include <eof>}
static void enum_graphs(int nfiles, int maxslots_last, const CB &cb) {
  std::vector<std::string> names = {"main", "a", "b", "c"}; names.resize(nfiles);
  std::vector<std::string> targets; for (auto &n : names) targets.push_back("include \"" + n + "\""); targets.push_back("include \"x\""); targets.push_back("Include \"y\""); targets.push_back("INCLUDE q"); targets.push_back("include");
  int nt = (int)targets.size();
  auto contents = [&](const std::string &f, int maxslots) {
    std::vector<std::string> out; std::string m = "m" + f;
    out.push_back(m + "0");
    for (int s1 = 0; s1 < nt; s1++) {
      bool eof1 = targets[s1] == "include";
      out.push_back(m + "0\n" + targets[s1] + (eof1 ? "" : "\n" + m + "1"));
      if (!eof1 && targets[s1] != "INCLUDE q") out.push_back(m + "0\n" + targets[s1]);  // the file ends with the directive
      if (maxslots < 2 || eof1) continue;
      for (int s2 = 0; s2 < nt; s2++) { bool eof2 = targets[s2] == "include"; out.push_back(m + "0\n" + targets[s1] + " " + m + "1\n" + targets[s2] + (eof2 ? "" : "\n" + m + "2")); }
    }
    return out; };
  std::vector<std::vector<std::string>> C; for (int i = 0; i < nfiles; i++) C.push_back(contents(names[i], i == nfiles - 1 ? maxslots_last : 2));
  std::vector<size_t> ix(nfiles, 0);
  for (;;) {
    Case c; c.main = "main"; for (int i = 0; i < nfiles; i++) c.files[names[i]] = C[i][ix[i]];
    cb(c);
    if (ix[0] == 0 || true) { /* main absent variant only once per distinct rest is enough: main content irrelevant */ }
    int i = 0; while (i < nfiles && ++ix[i] == C[i].size()) ix[i++] = 0;
    if (i == nfiles) break;
  }
  // absent main: the other files in every shape
  std::vector<size_t> jx(nfiles, 0);
  for (;;) {
    Case c; c.main = "main"; for (int i = 1; i < nfiles; i++) c.files[names[i]] = C[i][jx[i]];
    cb(c);
    int i = 1; while (i < nfiles && ++jx[i] == C[i].size()) jx[i++] = 0;
    if (i >= nfiles) break;
  }
}
static Level fam_graphs(int nfiles, int maxslots_last) {
  return {"include graphs over " + std::to_string(nfiles) + " files (last file <=" + std::to_string(maxslots_last) + " slots)", [=](const CB &cb) { enum_graphs(nfiles, maxslots_last, cb); }};
}

// include chains of depth 1..N: file f_i holds a marker, an include of f_{i+1} and another marker; every file label and line
// must survive the return from the deepest file (one-parameter family, every rung)
static Level fam_chain(int maxdepth) {
  return {"include chains of depth and width 1.." + std::to_string(maxdepth), [=](const CB &cb) {
            // width: one file including n files one after another (some of them twice, one missing)
            for (int n = 1; n <= maxdepth; n++) { Case c; c.main = "m"; std::string m = "s\n"; for (int i = 0; i < n; i++) { m += "include \"w" + std::to_string(i) + "\" k" + std::to_string(i) + "\n"; if (i % 5 != 4) c.files["w" + std::to_string(i)] = "t" + std::to_string(i) + (i % 7 == 3 ? " include \"w0\"" : ""); } m += "include \"w0\"\ne"; c.files["m"] = m; cb(c); }
            for (int d = 1; d <= maxdepth; d++) for (int variant = 0; variant < 3; variant++) {
              Case c; c.main = "f0";
              for (int i = 0; i < d; i++) c.files["f" + std::to_string(i)] = "a" + std::to_string(i) + "\ninclude \"f" + std::to_string(i + 1) + "\"\nb" + std::to_string(i) + (variant == 1 ? " include \"f" + std::to_string(d) + "\" c" + std::to_string(i) : "") + "\n";
              c.files["f" + std::to_string(d)] = variant == 2 ? "z include \"f0\" y" : "z";
              cb(c);
            } }};
}
static void oracle_C15(const Case &c, vf::Stats &st) {
  st.add("cases");
  ref::ScanOut want = ref::scan(c.files, c.main);
  Theo::ScanResult got = Theo::scan(c.files, c.main);
  std::string cj = c.json(), key = c.key();
  // errors: same kinds at the same locations, in order
  std::vector<std::string> ge, we;
  for (auto &e : got.errors) ge.push_back(std::to_string((int)e.t) + "@" + e.file + ":" + std::to_string(e.line) + (e.file_request.empty() || ((int)e.t != ref::E_MAIN_NOT_FOUND && (int)e.t != ref::E_FILE_NOT_FOUND) ? "" : " req=" + e.file_request));  // what other kinds of error carry in that field is not specified
  for (auto &e : want.errs) we.push_back(std::to_string(e.kind) + "@" + e.file + ":" + std::to_string(e.line) + (e.request.empty() ? "" : " req=" + e.request));
  std::sort(ge.begin(), ge.end()); std::sort(we.begin(), we.end());  // the order in which errors are listed is not part of the property
  if (ge != we) { st.violation(key, "scanner reports " + vf::jarr_str(ge) + ", reference " + vf::jarr_str(we) + " (0 main missing, 1 expected filename, 2 not found, 3 recursive)", cj); return; }
  // marker order (every token that is not part of an include directive), up to the first malformed include exactly, after it
  // as the subsequence of marker tokens that both agree are present
  std::vector<std::string> gm, wm; for (auto &t : got.toks) if (t.t == Theo::Token::ID) gm.push_back(t.text + "@" + t.file + ":" + std::to_string(t.line));
  for (auto &t : want.toks) if (t.k == ref::ID) wm.push_back(t.text + "@" + t.file + ":" + std::to_string(t.line));
  if (want.exact_prefix < 0 ? gm != wm : false) { st.violation(key, "token order " + vf::jarr_str(gm) + ", reference " + vf::jarr_str(wm), cj); return; }
  if (want.exact_prefix >= 0) {
    // the token after a malformed include may or may not be dropped: compare with that token removed on both sides
    std::set<std::string> g(gm.begin(), gm.end());
    std::vector<std::string> wf; for (auto &m : wm) wf.push_back(m);
    // every marker the reference keeps must appear in the real stream in the same relative order
    size_t gi = 0; for (auto &m : wf) { while (gi < gm.size() && gm[gi] != m) gi++; if (gi == gm.size()) { st.violation(key, "marker " + m + " missing or out of order: " + vf::jarr_str(gm) + ", reference " + vf::jarr_str(wm), cj); return; } gi++; }
    st.add("with_malformed_include");
  }
  // file requests of the whole compilation
  Theo::CodegenResult cr = Theo::compile(c.files, c.main);
  std::set<std::string> gr(cr.file_requests.begin(), cr.file_requests.end());
  if (gr != want.requests) { std::vector<std::string> a(gr.begin(), gr.end()), b(want.requests.begin(), want.requests.end()); st.violation(key, "file requests " + vf::jarr_str(a) + ", reference " + vf::jarr_str(b), cj); return; }
  if (!want.requests.empty() && cr.generated_correctly) { st.violation(key, "compilation marked correct although files are missing", cj); return; }
  bool rec = false, miss = false; for (auto &e : want.errs) { if (e.kind == ref::E_RECURSIVE) rec = true; if (e.kind == ref::E_FILE_NOT_FOUND) miss = true; }
  if (rec) st.add("with_recursive_include"); if (miss) st.add("with_missing_include"); if (want.main_missing) st.add("main_missing");
  if (!want.errs.empty()) st.nontrivial.insert(c.hash());
  uint64_t h = 0; for (auto &e : we) h = vf::mix(h ^ vf::fnv(e)); for (auto &m : wm) h = vf::mix(h ^ vf::fnv(m)); st.outcomes.insert(h);
  if (rec && miss) st.sample("{\"files\":" + vf::jmap(c.files) + ",\"errors\":" + vf::jarr_str(we) + ",\"order\":" + vf::jarr_str(wm) + "}", 2);
}

int main(int argc, char **argv) {
  drv::Args args = drv::Args::parse(argc, argv); bool T = args.thorough();
  std::vector<Level> L; std::function<void(const Case &, vf::Stats &)> o;
  if (args.prop == "C14") {
    o = oracle_C14;
    L = {fam_pieces(1, 0), fam_chain(40), fam_bytes(4), fam_bytes2(4), fam_pieces(2, 0), fam_graphs(3, 1), fam_bytes(5)};
    if (T) { L.push_back(fam_bytes2(5)); L.push_back(fam_graphs(3, 2)); L.push_back(fam_pieces(3, 60)); L.push_back(fam_bytes(6)); }
  } else if (args.prop == "C15") {
    o = oracle_C15;
    L = {fam_graphs(2, 2), fam_chain(40), fam_graphs(3, 1), fam_graphs(3, 2)};
    if (T) { L.push_back(fam_graphs(4, 0)); L.push_back(fam_graphs(4, 1)); }
  } else { fprintf(stderr, "ERROR: unknown property %s\n", args.prop.c_str()); return 2; }
  return drv::run<Case>(args, L, o, {}, 3);  // a scan takes microseconds; 3 s (15 s when re-run alone) means it does not terminate
}
