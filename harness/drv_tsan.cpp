// C18, free-running pass: the same thread bodies as the schedule explorer, run by real threads without any scheduler
// under the real ThreadSanitizer runtime (the cooperative scheduler's hand-offs are happens-before edges that would hide
// races from a detector, so this pass runs separately). Not exhaustive; it keeps sub-access-granularity races visible.
#include <thread>

#include "det_bodies.hpp"
#include "driver_main.hpp"

static std::vector<std::vector<int>> harnesses() { return {{0, 0}, {0, 1}, {2, 3}, {3, 4}, {5, 6}, {0, 7}, {8, 0}, {0, 1, 3}}; }
int main(int argc, char **argv) {
  drv::Args args = drv::Args::parse(argc, argv); double t0 = vf::now_s();
  int child = -1, reps = args.thorough() ? 50 : 12;
  for (int i = 1; i < argc; i++) if (std::string(argv[i]) == "--child") child = atoi(argv[i + 1]);
  auto H = harnesses();
  if (child >= 0) {
    std::vector<std::string> solo; for (int op : H[child]) solo.push_back(det::run_op(op, nullptr));
    for (int r = 0; r < reps; r++) {
      std::vector<std::string> res(H[child].size()); std::vector<std::thread> th;
      for (size_t t = 0; t < H[child].size(); t++) th.emplace_back([&, t]() { res[t] = det::run_op(H[child][t], nullptr); });
      for (auto &x : th) x.join();
      for (size_t t = 0; t < res.size(); t++) if (res[t] != solo[t]) { fprintf(stderr, "RESULT-DIFFERS thread %zu op %d repetition %d\n", t, H[child][t], r); return 67; }
    }
    return 0;
  }
  vf::Stats st; std::vector<std::string> done, planned;
  for (size_t h = 0; h < H.size(); h++) {
    std::string name = "free-running threads, harness " + std::to_string(h) + " x" + std::to_string(reps); planned.push_back(name);
    std::string cmd = std::string("TSAN_OPTIONS='halt_on_error=1 exitcode=66 report_signal_unsafe=0' '") + argv[0] + "' --tier " + args.tier + " --child " + std::to_string(h) + " 2>/dev/shm/vf_tsan_" + std::to_string(getpid()) + ".err";
    int rc = system(cmd.c_str()); std::string err = vf::slurp("/dev/shm/vf_tsan_" + std::to_string(getpid()) + ".err"); unlink(("/dev/shm/vf_tsan_" + std::to_string(getpid()) + ".err").c_str());
    st.add("cases", reps); st.add("tsan_runs", reps); for (int r = 0; r < reps; r++) st.nontrivial.insert(vf::mix(h * 1000 + r)); st.outcomes.insert(rc);
    if (rc != 0) { st.violation("tsan:harness" + std::to_string(h), "ThreadSanitizer / result comparison failed (status " + std::to_string(rc) + "): " + err.substr(0, 1500), "{\"kind\":\"tsan\",\"harness\":" + std::to_string(h) + "}"); }
    else done.push_back(name);
  }
  if (!args.replay.empty()) { if (st.nviol) { for (auto &v : st.viol) printf("REPLAY-VIOLATION %s\n", v.what.c_str()); return 1; } printf("REPLAY-OK property=C18 free-running ThreadSanitizer pass clean\n"); return 0; }
  st.sample("{\"harnesses\":" + std::to_string(H.size()) + ",\"repetitions_each\":" + std::to_string(reps) + "}");
  std::map<std::string, std::string> extra; extra["levels_completed"] = vf::jarr_str(done); extra["levels_planned"] = vf::jarr_str(planned); extra["wall_s"] = std::to_string(vf::now_s() - t0);
  std::string js = vf::stats_json(st, extra);
  if (!args.out.empty()) { FILE *f = fopen(args.out.c_str(), "w"); fputs(js.c_str(), f); fclose(f); } else puts(js.c_str());
  return st.nviol ? 1 : 0;
}
