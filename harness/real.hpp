// Access to the implementation under test (compiled with -fno-access-control, so private VM state is readable).
#pragma once
#include <map>
#include <string>
#include <vector>

#include "Compiler/include/compiler.hpp"
#include "Compiler/include/macro.hpp"
#include "Compiler/include/scan.hpp"
#include "VM/include/vm.hpp"
#include "common.hpp"
#include "ref_lex.hpp"

namespace real {

typedef std::map<std::string, std::string> Files;

inline std::string case_json(const Files &f, const std::string &main, const std::string &extra = "") {
  return "{\"kind\":\"compile\",\"files\":" + vf::jmap(f) + ",\"main\":" + vf::jstr(main) + extra + "}";
}

inline const char *opname(Theo::OpCode o) {
  static const char *n[] = {"PBREAK", "BREAK", "HALT", "ADD", "JMP", "JMPC", "PREPARE", "ARG", "EXEC", "RET", "CONST", "TEST"};
  return ((int)o >= 0 && (int)o < 12) ? n[(int)o] : "?";
}
inline std::string disasm(const Theo::Program &p) {
  std::string o;
  for (size_t i = 0; i < p.code.size(); i++) {
    const Theo::Instruction &in = p.code[i]; char b[160];
    switch (in.op) {
      case Theo::OpCode::ADD_CONST: snprintf(b, sizeof b, "%zu:ADD r%d=r%d+%d", i, in.parameters.add.target, in.parameters.add.source, in.parameters.add.constant); break;
      case Theo::OpCode::CONST: snprintf(b, sizeof b, "%zu:CONST r%d=%d", i, in.parameters.constant.target, in.parameters.constant.constant); break;
      case Theo::OpCode::TEST: snprintf(b, sizeof b, "%zu:TEST r%d=r%d==r%d", i, in.parameters.test.target, in.parameters.test.op1, in.parameters.test.op2); break;
      case Theo::OpCode::JMP: snprintf(b, sizeof b, "%zu:JMP %+d", i, in.parameters.jmp.offset); break;
      case Theo::OpCode::JMPC: snprintf(b, sizeof b, "%zu:JMPC %+d r%d", i, in.parameters.jmpc.offset, in.parameters.jmpc.source); break;
      case Theo::OpCode::PREPARE_EXEC: snprintf(b, sizeof b, "%zu:PREPARE n=%d map=%d tgt=r%d", i, in.parameters.prepare.count, in.parameters.prepare.index, in.parameters.prepare.target); break;
      case Theo::OpCode::ARG: snprintf(b, sizeof b, "%zu:ARG a%d=r%d", i, in.parameters.arg.target, in.parameters.arg.source); break;
      case Theo::OpCode::EXEC: snprintf(b, sizeof b, "%zu:EXEC %d", i, in.parameters.exec.entry); break;
      case Theo::OpCode::RET: snprintf(b, sizeof b, "%zu:RET r%d", i, in.parameters.ret.source); break;
      default: snprintf(b, sizeof b, "%zu:%s", i, opname(in.op));
    }
    o += b; o += " ";
  }
  return o;
}

// user-visible variables of one activation: names a user can write (identifiers of the language). Everything else in
// the view (macro temporaries, loop counters, compiler temporaries - however they are spelled) is hidden state.
inline bool is_user_name(const std::string &n) {
  if (n.empty() || !ref::isidstart((unsigned char)n[0])) return false;
  for (unsigned char c : n) if (!ref::isidchar(c)) return false;
  return true;
}
inline std::map<std::string, long long> user_view(Theo::VM::Activation &a) {
  std::map<std::string, long long> m;
  for (auto &p : a.getActivationVariables()) if (is_user_name(p.first)) m[p.first] = p.second;
  return m;
}

inline ref::Tok totok(const Theo::Token &t) { return {(int)t.t, t.text, t.file, t.line}; }

}  // namespace real
