// C14, product check (unbounded in input length): the DFA encoded in the committed lex.yy.c tables is explored in
// product with the reference automaton of the frozen rule table (all rules run in parallel, R-FLEXDFA), over all 256
// bytes.  Model-to-code binding: for every product state the BFS witness string is scanned by the real yylex and the
// first token compared with the reference tokenizer.
#include "Compiler/src/lex.yy.c"
//
#include <deque>

#include "driver_main.hpp"
#include "real.hpp"

static const int NSTATES = sizeof(yy_accept) / sizeof(yy_accept[0]);  // jam state = NSTATES-1
static int flex_next(int cur, unsigned char byte) {
  YY_CHAR yy_c = byte ? yy_ec[byte] : 1;  // a NUL inside the buffer is handled by yy_try_NUL_trans with class 1
  while (yy_chk[yy_base[cur] + yy_c] != cur) { cur = (int)yy_def[cur]; if (cur >= NSTATES) yy_c = yy_meta[yy_c]; }
  return yy_nxt[yy_base[cur] + yy_c];
}

// ---- reference automaton: per-rule state, -1 = dead -------------------------------------------------------------------
struct RS { int n = 0; std::string pre; bool operator<(const RS &o) const { return std::tie(n, pre) < std::tie(o.n, o.pre); } bool operator==(const RS &o) const { return n == o.n && pre == o.pre; } };
static RS dead() { RS r; r.n = -1; return r; }
static RS rstep(const ref::Rule &r, const RS &s, unsigned char b) {
  if (s.n < 0) return s;
  auto isdig = [](unsigned char c) { return c >= '0' && c <= '9'; };
  RS t;
  switch (r.special) {
    case 0: { std::string np = s.pre + (char)b; for (auto &a : r.alts) if (a.compare(0, np.size(), np) == 0) { t.pre = np; return t; } return dead(); }
    case 1: if (b == ' ' || b == '\t' || b == '\n') { t.n = 1; return t; } return dead();
    case 2: if (s.n == 0) { if (b == '"') { t.n = 1; return t; } return dead(); } if (s.n == 1) { t.n = (b == '"') ? 2 : 1; return t; } return dead();
    case 3: case 4: if (s.n == 0) { if (b == (r.special == 3 ? '$' : '#')) { t.n = 1; return t; } return dead(); }
      if (s.n == 1) { if (b == '0') { t.n = 2; return t; } if (b >= '1' && b <= '9') { t.n = 3; return t; } return dead(); }
      if (s.n == 3 && isdig(b)) { t.n = 3; return t; } return dead();
    case 5: if (s.n == 0 ? ref::isidstart(b) : ref::isidchar(b)) { t.n = 1; return t; } return dead();
    case 6: if (s.n == 0) { if (b == '0') { t.n = 2; return t; } if (b >= '1' && b <= '9') { t.n = 3; return t; } return dead(); } if (s.n == 3 && isdig(b)) { t.n = 3; return t; } return dead();
    case 7: if (s.n == 0) { if (b == '/') { t.n = 1; return t; } return dead(); } if (s.n == 1) { if (b == '/') { t.n = 2; return t; } return dead(); } if (b != '\n') { t.n = 2; return t; } return dead();
    case 8: if (s.n == 0) { t.n = 1; return t; } return dead();
  }
  return dead();
}
static bool raccept(const ref::Rule &r, const RS &s) {
  if (s.n < 0) return false;
  switch (r.special) {
    case 0: for (auto &a : r.alts) if (a == s.pre) return true; return false;
    case 1: return s.n == 1; case 2: return s.n == 2; case 3: case 4: return s.n == 2 || s.n == 3; case 5: return s.n == 1;
    case 6: return s.n == 2 || s.n == 3; case 7: return s.n == 2; case 8: return s.n == 1;
  }
  return false;
}
typedef std::vector<RS> Tuple;

int main(int argc, char **argv) {
  drv::Args args = drv::Args::parse(argc, argv);
  const auto &R = ref::rules(); vf::Stats st; double t0 = vf::now_s();
  struct PS { int f; Tuple r; std::string w; };
  std::map<std::pair<int, Tuple>, int> seen; std::deque<PS> q;
  Tuple init(R.size()); q.push_back({1, init, ""}); seen[{1, init}] = 0;
  long long transitions = 0, validated = 0; std::set<int> flex_states;
  auto fail = [&](const std::string &w, const std::string &what) { st.violation("flex-product:" + vf::jstr(w), what + " after input " + vf::jstr(w), "{\"kind\":\"flexprefix\",\"input\":" + vf::jstr(w) + "}"); };
  if ((int)R.size() + 2 != YY_END_OF_BUFFER) fail("", "the scanner has " + std::to_string(YY_END_OF_BUFFER - 2) + " rules, the documented table has " + std::to_string(R.size()));
  while (!q.empty() && st.nviol < 5) {
    PS s = q.front(); q.pop_front(); flex_states.insert(s.f);
    // binding: the witness is scanned by the real scanner, its first token compared with the reference tokenizer
    if (!s.w.empty()) {
      std::vector<ref::Tok> want = ref::lex(s.w, "main");
      Theo::ScannerInfo si{"main"}; yyscan_t sc; yylex_init(&sc); YY_BUFFER_STATE buf = yy_scan_bytes(s.w.data(), (int)s.w.size(), sc); yyset_lineno(1, sc); yyset_extra(&si, sc);
      Theo::Token tk; int d = yylex(&tk, sc);
      bool ok = want.empty() ? d == 0 : (d != 0 && (int)tk.t == want[0].k && tk.text == want[0].text && tk.line == want[0].line);
      yy_delete_buffer(buf, sc); yylex_destroy(sc);
      if (!ok) { fail(s.w, "real yylex and the reference tokenizer disagree on the first token"); continue; }
      validated++;
    }
    for (int b = 0; b < 256; b++) {
      int f2 = flex_next(s.f, (unsigned char)b); Tuple r2(R.size()); bool alive = false; int acc = 0;
      for (size_t i = 0; i < R.size(); i++) { r2[i] = rstep(R[i], s.r[i], (unsigned char)b); if (r2[i].n >= 0) alive = true; if (!acc && raccept(R[i], r2[i])) acc = (int)i + 1; }
      transitions++;
      std::string w2 = s.w + (char)b;
      bool jam = (f2 == NSTATES - 1);
      if (jam != !alive) { fail(w2, jam ? "the scanner's automaton is stuck but a documented rule can still match" : "the scanner's automaton continues but no documented rule can match"); break; }
      if (jam) continue;
      if ((int)yy_accept[f2] != acc) { fail(w2, "the scanner's automaton accepts rule " + std::to_string(yy_accept[f2]) + ", the documented rule table gives rule " + std::to_string(acc) + " (0 = no rule; numbering = order in lexer.l)"); break; }
      auto key = std::make_pair(f2, r2);
      if (!seen.count(key)) { seen[key] = (int)seen.size(); q.push_back({f2, r2, w2}); }
    }
  }
  st.add("cases", (long long)seen.size()); st.add("states", (long long)seen.size()); st.add("transitions", transitions); st.add("traces_validated", validated);
  st.add("flex_states_reached", (long long)flex_states.size()); st.add("flex_states_total", NSTATES - 1);
  for (auto &p : seen) st.nontrivial.insert(vf::mix(p.second + 77)); for (int f : flex_states) st.outcomes.insert(f);
  st.sample("{\"product_states\":" + std::to_string(seen.size()) + ",\"flex_states\":" + std::to_string(flex_states.size()) + ",\"bytes\":256}");
  std::map<std::string, std::string> extra; extra["levels_completed"] = extra["levels_planned"] = "[\"flex-table product (all 256 bytes, to closure)\"]"; extra["wall_s"] = std::to_string(vf::now_s() - t0);
  std::string js = vf::stats_json(st, extra);
  if (!args.replay.empty()) {
    vf::J j = vf::jparse(vf::slurp(args.replay)); const vf::J &cj = j.has("case") ? j["case"] : j;
    if (st.nviol) { for (auto &v : st.viol) printf("REPLAY-VIOLATION %s\n", v.what.c_str()); return 1; }
    printf("REPLAY-OK property=C14 product check passes (input %s)\n", vf::jstr(cj["input"].s).c_str()); return 0;
  }
  if (!args.out.empty()) { FILE *f = fopen(args.out.c_str(), "w"); fputs(js.c_str(), f); fclose(f); } else puts(js.c_str());
  return st.nviol ? 1 : 0;
}
