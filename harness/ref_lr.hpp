// R-LR: textbook FIRST / nullable, canonical LR(1) collection with the documented prefix-mode rule, and - independent of
// any LR construction - a derivation-tree counter giving language membership, number of parse trees and the fold value.
#pragma once
#include <algorithm>
#include <functional>
#include <map>
#include <set>
#include <string>
#include <vector>

namespace reflr {

struct Sym { bool term; int idx; bool operator<(const Sym &o) const { return std::tie(term, idx) < std::tie(o.term, o.idx); } bool operator==(const Sym &o) const { return term == o.term && idx == o.idx; } };
struct Rule { int lhs; std::vector<Sym> rhs; };
struct Grammar { int nnt = 0; std::vector<Rule> rules; int start = 0; };

// ---- FIRST ------------------------------------------------------------------------------------------------------------
struct First { std::vector<std::set<int>> first; std::vector<bool> nullable; };
inline First first_sets(const Grammar &g) {
  First f; f.first.assign(g.nnt, {}); f.nullable.assign(g.nnt, false);
  bool ch = true;
  while (ch) {
    ch = false;
    for (auto &r : g.rules) {
      bool alln = true;
      for (auto &s : r.rhs) {
        if (s.term) { if (f.first[r.lhs].insert(s.idx).second) ch = true; alln = false; break; }
        for (int t : f.first[s.idx]) if (f.first[r.lhs].insert(t).second) ch = true;
        if (!f.nullable[s.idx]) { alln = false; break; }
      }
      if (alln && !f.nullable[r.lhs]) { f.nullable[r.lhs] = true; ch = true; }
    }
  }
  return f;
}
inline std::set<int> first_of(const First &f, const std::vector<Sym> &str, size_t from, int la) {  // FIRST(str[from..] la)
  std::set<int> out;
  for (size_t i = from; i < str.size(); i++) {
    if (str[i].term) { out.insert(str[i].idx); return out; }
    for (int t : f.first[str[i].idx]) out.insert(t);
    if (!f.nullable[str[i].idx]) return out;
  }
  out.insert(la); return out;
}

// ---- canonical LR(1) with prefix mode; returns the number of conflicts ------------------------------------------------
struct Item { int rule, dot, la; bool operator<(const Item &o) const { return std::tie(rule, dot, la) < std::tie(o.rule, o.dot, o.la); } };
typedef std::set<Item> ItemSet;

struct LRResult { int states = 0; int conflicts = 0; std::vector<std::string> conflict_desc; };

// terminals are 0..nterm-1, eof is a terminal index; prefix: an item with lookahead eof acts on every terminal
inline LRResult lr1(const Grammar &g0, int nterm, int eof, bool prefix, int state_cap = 20000) {
  Grammar g = g0; int sprime = g.nnt++; g.rules.push_back({sprime, {{false, g0.start}}}); int aug = (int)g.rules.size() - 1;
  First f = first_sets(g);
  auto closure = [&](ItemSet I) {
    std::vector<Item> work(I.begin(), I.end());
    while (!work.empty()) {
      Item it = work.back(); work.pop_back(); const Rule &r = g.rules[it.rule];
      if (it.dot >= (int)r.rhs.size() || r.rhs[it.dot].term) continue;
      int B = r.rhs[it.dot].idx; std::set<int> las = first_of(f, r.rhs, it.dot + 1, it.la);
      for (size_t ri = 0; ri < g.rules.size(); ri++) if (g.rules[ri].lhs == B) for (int la : las) { Item n{(int)ri, 0, la}; if (I.insert(n).second) work.push_back(n); }
    }
    return I; };
  std::vector<ItemSet> C; std::map<ItemSet, int> id; std::vector<std::map<Sym, int>> go;
  ItemSet s0 = closure({{aug, 0, eof}}); C.push_back(s0); id[s0] = 0; go.push_back({});
  LRResult res;
  for (size_t i = 0; i < C.size(); i++) {
    std::map<Sym, ItemSet> moves;
    for (auto &it : C[i]) { const Rule &r = g.rules[it.rule]; if (it.dot < (int)r.rhs.size()) moves[r.rhs[it.dot]].insert({it.rule, it.dot + 1, it.la}); }
    for (auto &m : moves) { ItemSet J = closure(m.second); auto f2 = id.find(J); int j; if (f2 == id.end()) { j = (int)C.size(); id[J] = j; C.push_back(J); go.push_back({}); if ((int)C.size() > state_cap) { res.states = -1; return res; } } else j = f2->second; go[i][m.first] = j; }
  }
  res.states = (int)C.size();
  // table: per state and terminal the set of distinct actions
  for (size_t i = 0; i < C.size(); i++) {
    std::vector<std::set<std::string>> act(nterm);
    for (auto &m : go[i]) if (m.first.term && m.first.idx < nterm) act[m.first.idx].insert("s");
    for (auto &it : C[i]) {
      const Rule &r = g.rules[it.rule]; if (it.dot != (int)r.rhs.size()) continue;
      std::string a = it.rule == aug ? "acc" : "r" + std::to_string(it.rule);
      if (it.la == eof && prefix) { for (int t = 0; t < nterm; t++) act[t].insert(a); }
      else if (it.la < nterm) act[it.la].insert(a);
    }
    for (int t = 0; t < nterm; t++) if (act[t].size() > 1) { res.conflicts++; if (res.conflict_desc.size() < 3) { std::string d = "state " + std::to_string(i) + " terminal " + std::to_string(t) + ":"; for (auto &x : act[t]) d += " " + x; res.conflict_desc.push_back(d); } }
  }
  return res;
}

// ---- derivation trees (independent of LR) -----------------------------------------------------------------------------
// count[X][i][j] in {0,1,2}: number of derivation trees of input[i..j) from X, saturated at 2 (cycles saturate too)
struct Trees {
  const Grammar &g; const std::vector<int> &in; int n;
  std::vector<std::vector<std::vector<int>>> cnt;
  Trees(const Grammar &g, const std::vector<int> &in) : g(g), in(in), n((int)in.size()) {
    cnt.assign(g.nnt, std::vector<std::vector<int>>(n + 1, std::vector<int>(n + 1, 0)));
    bool ch = true; int rounds = 0;
    while (ch && rounds++ < 200) {
      ch = false;
      for (int len = 0; len <= n; len++) for (int i = 0; i + len <= n; i++) { int j = i + len;
        for (int X = 0; X < g.nnt; X++) { int c = 0; for (auto &r : g.rules) if (r.lhs == X) c = std::min(2, c + ways(r.rhs, 0, i, j)); if (c != cnt[X][i][j]) { cnt[X][i][j] = c; ch = true; } } }
    }
  }
  int ways(const std::vector<Sym> &rhs, size_t k, int i, int j) const {
    if (k == rhs.size()) return i == j ? 1 : 0;
    int tot = 0;
    if (rhs[k].term) { if (i < j && in[i] == rhs[k].idx) tot = ways(rhs, k + 1, i + 1, j); return tot; }
    for (int m = i; m <= j; m++) { int a = cnt[rhs[k].idx][i][m]; if (!a) continue; int b = ways(rhs, k + 1, m, j); tot = std::min(2, tot + std::min(2, a * b)); }
    return tot;
  }
  // fold of the unique tree of X over [i,j): action(rule, children values last-first)
  std::string fold(int X, int i, int j, const std::function<std::string(int)> &leaf, int depth = 0) const {
    if (depth > 64) return "?";
    for (size_t ri = 0; ri < g.rules.size(); ri++) { const Rule &r = g.rules[ri]; if (r.lhs != X || ways(r.rhs, 0, i, j) == 0) continue;
      std::vector<std::string> vals; split(r.rhs, 0, i, j, vals, leaf, depth);
      std::string o = "r" + std::to_string(ri) + "("; for (size_t k = vals.size(); k-- > 0;) { o += vals[k]; if (k) o += ","; } return o + ")"; }
    return "?";
  }
  bool split(const std::vector<Sym> &rhs, size_t k, int i, int j, std::vector<std::string> &vals, const std::function<std::string(int)> &leaf, int depth) const {
    if (k == rhs.size()) return i == j;
    if (rhs[k].term) { if (i < j && in[i] == rhs[k].idx && ways(rhs, k + 1, i + 1, j)) { vals.push_back(leaf(in[i])); return split(rhs, k + 1, i + 1, j, vals, leaf, depth); } return false; }
    for (int m = i; m <= j; m++) if (cnt[rhs[k].idx][i][m] && ways(rhs, k + 1, m, j)) { vals.push_back(fold(rhs[k].idx, i, m, leaf, depth + 1)); return split(rhs, k + 1, m, j, vals, leaf, depth); }
    return false;
  }
};

}  // namespace reflr
