// R-SEM: source-level small-step interpreter of the LOOP/WHILE/GOTO language over R-PARSE's AST.
// Natural numbers, zero default, x+c, max(x-c,0), LOOP with a hidden per-activation counter copied from the bound at
// entry, WHILE x != 0, GOTO / IF x = c THEN GOTO to any label of the same routine, STOP halts everything, call-by-value
// RUN with fresh zeroed locals returning OUT (default x0).  Also produces the stepping trace of C07.
#pragma once
#include <map>
#include <set>
#include <string>
#include <vector>

#include "ref_parse.hpp"

namespace ref {

struct Op {
  enum T { ASSIGN, LOOPHEAD, LOOPTEST, LOOPBACK, WHILEHEAD, WHILETEST, JUMP, ENDMARK, GOTO, IF, STOP, PROGEND, MAINEND } t;
  const Stmt *s = nullptr;
  int a = 0;            // jump target pc / loop id
  int b = 0;            // second target
  Pos pos;
  std::vector<int> loops;  // ids of the LOOP statements lexically enclosing this op (innermost last)
};

struct Routine {
  int def = -1;  // -1 = main
  std::string name;
  std::vector<Op> ops;
  std::map<std::string, int> label_pc;
  std::set<std::string> vars;  // every user variable of the routine: mentioned, parameters, OUT
  std::string out;
};

inline void val_vars(const Val &v, std::set<std::string> &vs) {
  if (v.t == Val::VAR || v.t == Val::ADDC) vs.insert(v.var);
  for (auto &a : v.args) val_vars(a, vs);
}

struct Flattener {
  Routine &r; std::vector<int> encl;
  int emit(Op o) { o.loops = encl; r.ops.push_back(o); return (int)r.ops.size() - 1; }
  void seq(const std::vector<Stmt> &b) { for (auto &s : b) stmt(s); }
  void stmt(const Stmt &s) {
    int here = (int)r.ops.size();
    for (auto &l : s.labels) if (!r.label_pc.count(l)) r.label_pc[l] = here;
    switch (s.t) {
      case Stmt::ASSIGN: r.vars.insert(s.var); val_vars(s.val, r.vars); emit({Op::ASSIGN, &s, 0, 0, s.pos}); break;
      case Stmt::GOTO: emit({Op::GOTO, &s, 0, 0, s.pos}); break;
      case Stmt::IF: r.vars.insert(s.var); emit({Op::IF, &s, 0, 0, s.pos}); break;
      case Stmt::STOP: emit({Op::STOP, &s, 0, 0, s.pos}); break;
      case Stmt::LOOP: {
        r.vars.insert(s.var);
        emit({Op::LOOPHEAD, &s, s.id, 0, s.pos});
        int test = emit({Op::LOOPTEST, &s, s.id, 0, s.pos});
        encl.push_back(s.id); seq(s.body);
        emit({Op::LOOPBACK, &s, s.id, test, s.pos});
        encl.pop_back();
        int end = emit({Op::ENDMARK, &s, 0, 0, s.endpos});
        r.ops[test].b = end;
        break;
      }
      case Stmt::WHILE: {
        r.vars.insert(s.var);
        emit({Op::WHILEHEAD, &s, 0, 0, s.pos});
        int test = emit({Op::WHILETEST, &s, 0, 0, s.pos});
        seq(s.body);
        emit({Op::JUMP, &s, test, 0, s.pos});
        int end = emit({Op::ENDMARK, &s, 0, 0, s.endpos});
        r.ops[test].b = end;
        break;
      }
    }
  }
};

inline Routine flatten(const Prog &p, int def) {
  Routine r; r.def = def; Flattener f{r, {}};
  if (def < 0) { r.name = "#root"; f.seq(p.main); f.emit({Op::MAINEND, nullptr, 0, 0, {}}); }
  else {
    const Def &d = p.defs[def]; r.name = d.name; r.out = d.out;
    for (auto &a : d.params) r.vars.insert(a);
    r.vars.insert(d.out);
    f.seq(d.body); f.emit({Op::PROGEND, nullptr, 0, 0, d.endpos});
  }
  return r;
}

struct FrameView { std::string routine; std::map<std::string, long long> vars; };
struct StopRec { Pos pos; std::vector<FrameView> frames; };

struct Frame { const Routine *r; std::map<std::string, long long> env; std::map<int, long long> counter; };

struct SemResult {
  bool finished = false;          // reached the end (or STOP) within the step budget
  bool stopped_by_stop = false;
  bool outside = false;           // a jump entered a LOOP body whose hidden counter was non-zero (semantics left open)
  bool big = false;               // some value reached 2^31-1 (outside the property's domain)
  long long steps = 0;
  std::vector<FrameView> final_frames;  // bottom to top
  std::vector<StopRec> trace; bool trace_cut = false;
  long long jumps_into_body = 0, calls = 0, max_depth = 1;
  std::map<int, long long> body_entries;  // loop id -> times the body was (re)entered through the loop test
};

struct Sem {
  const Prog &p; std::vector<Routine> routines; Routine mainr;
  long long budget; size_t trace_cap; bool want_trace;
  SemResult res; std::vector<Frame *> stack; bool halted = false, out_of_budget = false;
  static constexpr long long BIG = 2147483647LL;

  Sem(const Prog &p, long long budget, bool want_trace, size_t trace_cap = 400) : p(p), budget(budget), trace_cap(trace_cap), want_trace(want_trace) {
    for (size_t i = 0; i < p.defs.size(); i++) routines.push_back(flatten(p, (int)i));
    mainr = flatten(p, -1);
  }
  bool tick() { if (++res.steps > budget) { out_of_budget = true; return false; } return true; }
  std::vector<FrameView> snapshot() {
    std::vector<FrameView> v;
    for (auto f : stack) { FrameView fv; fv.routine = f->r->name; for (auto &n : f->r->vars) fv.vars[n] = f->env.count(n) ? f->env[n] : 0; v.push_back(fv); }
    return v;
  }
  void stop_at(const Pos &pos) {
    if (!want_trace) return;
    if (res.trace.size() >= trace_cap) { res.trace_cut = true; return; }
    res.trace.push_back({pos, snapshot()});
  }
  long long chk(long long v) { if (v >= BIG) res.big = true; return v; }
  long long eval(Frame &f, const Val &v) {
    if (!tick()) return 0;
    switch (v.t) {
      case Val::VAR: return f.env[v.var];
      case Val::CONST: return chk(v.c);
      case Val::ADDC: { long long x = f.env[v.var] + v.c; return chk(x < 0 ? 0 : x); }
      case Val::CALL: {
        std::vector<long long> args;
        for (auto &a : v.args) { args.push_back(eval(f, a)); if (halted || out_of_budget) return 0; }
        return call(v.def, args);
      }
    }
    return 0;
  }
  long long call(int def, const std::vector<long long> &args) {
    const Routine &r = routines[def]; Frame fr; fr.r = &r; res.calls++;
    for (size_t i = 0; i < args.size(); i++) fr.env[p.defs[def].params[i]] = args[i];
    stack.push_back(&fr); res.max_depth = std::max<long long>(res.max_depth, stack.size());
    long long rv = run(fr);
    if (!halted && !out_of_budget) stack.pop_back();
    return rv;
  }
  void jump_to(Frame &f, const Op &from, const std::string &label, int &pc) {
    int tgt = f.r->label_pc.at(label);
    const Op &to = f.r->ops[tgt];
    for (int l : to.loops) {
      bool shared = false; for (int m : from.loops) if (m == l) shared = true;
      if (!shared) { res.jumps_into_body++; if (f.counter[l] != 0) res.outside = true; }
    }
    pc = tgt;
  }
  long long run(Frame &f) {
    int pc = 0;
    for (;;) {
      if (!tick()) return 0;
      const Op &o = f.r->ops[pc];
      switch (o.t) {
        case Op::ASSIGN: { stop_at(o.pos); long long v = eval(f, o.s->val); if (halted || out_of_budget) return 0; f.env[o.s->var] = v; pc++; break; }
        case Op::LOOPHEAD: stop_at(o.pos); f.counter[o.a] = f.env[o.s->var]; pc++; break;
        case Op::LOOPTEST: if (f.counter[o.a] == 0) pc = o.b; else { res.body_entries[o.a]++; pc++; } break;
        case Op::LOOPBACK: { long long c = f.counter[o.a] - 1; f.counter[o.a] = c < 0 ? 0 : c; pc = o.b; break; }
        case Op::WHILEHEAD: stop_at(o.pos); pc++; break;
        case Op::WHILETEST: if (f.env[o.s->var] == 0) pc = o.b; else pc++; break;
        case Op::JUMP: pc = o.a; break;
        case Op::ENDMARK: stop_at(o.pos); pc++; break;
        case Op::GOTO: stop_at(o.pos); jump_to(f, o, o.s->target, pc); break;
        case Op::IF: stop_at(o.pos); if (f.env[o.s->var] == o.s->c) jump_to(f, o, o.s->target, pc); else pc++; break;
        case Op::STOP: stop_at(o.pos); halted = true; res.stopped_by_stop = true; res.final_frames = snapshot(); return 0;
        case Op::PROGEND: stop_at(o.pos); return f.env[f.r->out];
        case Op::MAINEND: halted = true; res.final_frames = snapshot(); return 0;
      }
    }
  }
  SemResult &go() {
    Frame root; root.r = &mainr; stack.push_back(&root);
    run(root);
    res.finished = halted && !out_of_budget;
    return res;
  }
};

// A second, deliberately different reference for the structured fragment (no labels, jumps or calls): direct recursion
// over the AST, LOOP = "repeat the body n times" with n read once. Used only to cross-check R-SEM itself.
struct Denote {
  std::map<std::string, long long> env; long long fuel; bool stopped = false, out_of_fuel = false, applicable = true;
  explicit Denote(long long fuel) : fuel(fuel) {}
  long long val(const Val &v) {
    switch (v.t) { case Val::VAR: return env[v.var]; case Val::CONST: return v.c; case Val::ADDC: { long long x = env[v.var] + v.c; return x < 0 ? 0 : x; } default: applicable = false; return 0; }
  }
  void seq(const std::vector<Stmt> &b) { for (auto &s : b) { if (stopped || out_of_fuel || !applicable) return; stmt(s); } }
  void stmt(const Stmt &s) {
    if (!s.labels.empty()) { applicable = false; return; }
    if (--fuel < 0) { out_of_fuel = true; return; }
    switch (s.t) {
      case Stmt::ASSIGN: env[s.var] = val(s.val); break;
      case Stmt::LOOP: { long long n = env[s.var]; for (long long i = 0; i < n && !stopped && !out_of_fuel && applicable; i++) seq(s.body); break; }
      case Stmt::WHILE: while (env[s.var] != 0 && !stopped && !out_of_fuel && applicable) { if (--fuel < 0) { out_of_fuel = true; break; } seq(s.body); } break;
      case Stmt::STOP: stopped = true; break;
      default: applicable = false;
    }
  }
};

inline bool uses_while_or_goto(const std::vector<Stmt> &b) {
  for (auto &s : b) { if (s.t == Stmt::WHILE || s.t == Stmt::GOTO || s.t == Stmt::IF) return true; if (uses_while_or_goto(s.body)) return true; }
  return false;
}
inline bool uses_while_or_goto(const Prog &p) {
  for (auto &d : p.defs) if (uses_while_or_goto(d.body)) return true;
  return uses_while_or_goto(p.main);
}

}  // namespace ref
