#pragma once
namespace sc {
enum { MAXT = 4, MAXP = 4096, MAXLOG = 8192 };
struct Point { int nen; bool cur_enabled; int chosen; int from; int next; unsigned enabled_mask; int acc; /* index into log of the access `from` is about to perform, -1 none */ };
struct Access { int tid; long off; int size; bool write; bool atomic; int vc[MAXT]; /* vector clock of the thread at the access */ };
struct State {
  int nthreads; volatile int go[MAXT]; volatile int done; bool finished[MAXT]; bool blocked[MAXT]; const void *waits_on[MAXT]; int deadlock; int vc[MAXT][MAXT]; int syncops;
  int prefix[MAXP]; int nprefix; int pos;
  Point points[MAXP]; int npoints;
  Access log[MAXLOG]; int nlog; int overflow;
};
extern State S;
void run_threads(int n, void (*body)(int), const int *prefix, int nprefix);
}  // namespace sc
