// Replacement for libtsan used by the C18 schedule explorer.  libtheo is compiled with -fsanitize=thread, which makes the
// compiler insert a call __tsan_read/writeN(addr) before every memory access; this runtime turns every access to
// process-global memory (the executable's .data/.bss) made by a scheduled thread into a scheduling point of a cooperative
// scheduler (real pthreads, futex hand-off, exactly one thread runnable at a time) and logs it.
// This file and the harness are compiled WITHOUT -fsanitize=thread.
#include "mini_rt.hpp"

#include <linux/futex.h>
#include <pthread.h>
#include <sys/syscall.h>
#include <unistd.h>

#include <cstdint>
#include <cstdio>
#include <cstdlib>
#include <cstring>

extern "C" char __data_start, _end;

namespace sc {
State S;
static thread_local int tl_tid = -1;
static thread_local int tl_busy = 0;

static void fwait(volatile int *w) { while (__atomic_load_n(w, __ATOMIC_ACQUIRE) == 0) syscall(SYS_futex, w, FUTEX_WAIT, 0, nullptr, nullptr, 0); __atomic_store_n(w, 0, __ATOMIC_RELEASE); }
static void fwake(volatile int *w) { __atomic_store_n(w, 1, __ATOMIC_RELEASE); syscall(SYS_futex, w, FUTEX_WAKE, 1, nullptr, nullptr, 0); }

// the running thread `from` (-1: the controller) hands the processor to the thread chosen by the schedule
void pick(int from, int acc) {
  int en[MAXT], n = 0;
  bool from_enabled = from >= 0 && !S.finished[from];
  if (from_enabled) en[n++] = from;
  for (int t = 0; t < S.nthreads; t++) if (t != from && !S.finished[t]) en[n++] = t;
  if (n == 0) { fwake(&S.done); return; }
  int choice = 0;
  if (S.pos < S.nprefix) { choice = S.prefix[S.pos]; if (choice < 0 || choice >= n) { fprintf(stderr, "SCHED-DIVERGENCE: replayed choice %d out of range (%d enabled) at point %d\n", choice, n, S.pos); _exit(3); } }
  int next = en[choice]; unsigned mask = 0; for (int i = 0; i < n; i++) mask |= 1u << en[i];
  if (S.npoints < MAXP) { Point &q = S.points[S.npoints]; q.nen = n; q.cur_enabled = from_enabled; q.chosen = choice; q.from = from; q.next = next; q.enabled_mask = mask; q.acc = acc; S.npoints++; } else S.overflow = 1;
  S.pos++;
  if (next == from) return;
  fwake(&S.go[next]);
  if (from_enabled) fwait(&S.go[from]);
}

static inline void access(void *a, int size, bool write) {
  if (tl_tid < 0 || tl_busy) return;
  uintptr_t p = (uintptr_t)a;
  if (p < (uintptr_t)&__data_start || p >= (uintptr_t)&_end) return;
  if (p >= (uintptr_t)&S && p < (uintptr_t)(&S + 1)) return;
  tl_busy = 1;
  if (S.nlog < MAXLOG) { S.log[S.nlog].tid = tl_tid; S.log[S.nlog].off = (long)(p - (uintptr_t)&__data_start); S.log[S.nlog].size = size; S.log[S.nlog].write = write; S.nlog++; } else S.overflow = 1;
  pick(tl_tid, S.nlog - 1);
  tl_busy = 0;
}

struct Arg { int id; void (*body)(int); };
static void *tmain(void *v) {
  Arg *a = (Arg *)v; fwait(&S.go[a->id]); tl_tid = a->id;
  a->body(a->id);
  tl_busy = 1; S.finished[a->id] = true; pick(a->id, -1);
  return nullptr;
}
void run_threads(int n, void (*body)(int), const int *prefix, int nprefix) {
  memset((void *)&S, 0, sizeof S); S.nthreads = n; S.nprefix = nprefix; for (int i = 0; i < nprefix && i < MAXP; i++) S.prefix[i] = prefix[i];
  pthread_t th[MAXT]; Arg args[MAXT];
  for (int i = 0; i < n; i++) { args[i] = {i, body}; pthread_create(&th[i], nullptr, tmain, &args[i]); }
  pick(-1, -1);
  fwait(&S.done);
  for (int i = 0; i < n; i++) pthread_join(th[i], nullptr);
}
}  // namespace sc

extern "C" {
void __tsan_init() {}
void __tsan_func_entry(void *) {}
void __tsan_func_exit() {}
#define RW(n) void __tsan_read##n(void *a) { sc::access(a, n, false); } void __tsan_write##n(void *a) { sc::access(a, n, true); } \
              void __tsan_unaligned_read##n(void *a) { sc::access(a, n, false); } void __tsan_unaligned_write##n(void *a) { sc::access(a, n, true); }
RW(1) RW(2) RW(4) RW(8) RW(16)
void __tsan_read_range(void *a, unsigned long n) { sc::access(a, (int)n, false); }
void __tsan_write_range(void *a, unsigned long n) { sc::access(a, (int)n, true); }
void __tsan_vptr_update(void **p, void *) { sc::access(p, 8, true); }
void __tsan_vptr_read(void **p) { sc::access(p, 8, false); }
void __tsan_read_write1(void *a) { sc::access(a, 1, true); } void __tsan_read_write2(void *a) { sc::access(a, 2, true); }
void __tsan_read_write4(void *a) { sc::access(a, 4, true); } void __tsan_read_write8(void *a) { sc::access(a, 8, true); }
void __tsan_read_write16(void *a) { sc::access(a, 16, true); }
}
