// Replacement for libtsan used by the C18 schedule explorer.  libtheo is compiled with -fsanitize=thread, which makes the
// compiler insert a call __tsan_read/writeN(addr) before every memory access; this runtime turns every access to
// process-global memory (the executable's .data/.bss) made by a scheduled thread into a scheduling point of a cooperative
// scheduler (real pthreads, futex hand-off, exactly one thread runnable at a time) and logs it.
// This file and the harness are compiled WITHOUT -fsanitize=thread.
#include "mini_rt.hpp"

#include <linux/futex.h>
#include <pthread.h>
#include <sys/syscall.h>
#include <unistd.h>

#include <cstdint>
#include <cstdio>
#include <cstdlib>
#include <cstring>

extern "C" char __data_start, _end;

namespace sc {
State S;
static thread_local int tl_tid = -1;
static thread_local int tl_busy = 0;

static void fwait(volatile int *w) { while (__atomic_load_n(w, __ATOMIC_ACQUIRE) == 0) syscall(SYS_futex, w, FUTEX_WAIT, 0, nullptr, nullptr, 0); __atomic_store_n(w, 0, __ATOMIC_RELEASE); }
static void fwake(volatile int *w) { __atomic_store_n(w, 1, __ATOMIC_RELEASE); syscall(SYS_futex, w, FUTEX_WAKE, 1, nullptr, nullptr, 0); }

// the running thread `from` (-1: the controller) hands the processor to the thread chosen by the schedule
void pick(int from, int acc) {
  int en[MAXT], n = 0;
  bool from_enabled = from >= 0 && !S.finished[from] && !S.blocked[from];
  if (from_enabled) en[n++] = from;
  for (int t = 0; t < S.nthreads; t++) if (t != from && !S.finished[t] && !S.blocked[t]) en[n++] = t;
  if (n == 0) {
    bool all = true; for (int t = 0; t < S.nthreads; t++) if (!S.finished[t]) all = false;
    if (!all) { S.deadlock = 1; fprintf(stderr, "SCHED-DEADLOCK: no enabled thread, some blocked on a lock\n"); }
    fwake(&S.done); if (from >= 0 && !S.finished[from]) for (;;) pause();
    return;
  }
  int choice = 0;
  if (S.pos < S.nprefix) { choice = S.prefix[S.pos]; if (choice < 0 || choice >= n) { fprintf(stderr, "SCHED-DIVERGENCE: replayed choice %d out of range (%d enabled) at point %d\n", choice, n, S.pos); _exit(3); } }
  int next = en[choice]; unsigned mask = 0; for (int i = 0; i < n; i++) mask |= 1u << en[i];
  if (S.npoints < MAXP) { Point &q = S.points[S.npoints]; q.nen = n; q.cur_enabled = from_enabled; q.chosen = choice; q.from = from; q.next = next; q.enabled_mask = mask; q.acc = acc; S.npoints++; } else S.overflow = 1;
  S.pos++;
  if (next == from) return;
  fwake(&S.go[next]);
  if (from >= 0 && !S.finished[from]) fwait(&S.go[from]);
}

static inline void access(void *a, int size, bool write, bool atomic = false) {
  if (tl_tid < 0 || tl_busy) return;
  uintptr_t p = (uintptr_t)a;
  if (p < (uintptr_t)&__data_start || p >= (uintptr_t)&_end) return;
  if (p >= (uintptr_t)&S && p < (uintptr_t)(&S + 1)) return;
  tl_busy = 1;
  if (S.nlog < MAXLOG) { S.log[S.nlog].tid = tl_tid; S.log[S.nlog].off = (long)(p - (uintptr_t)&__data_start); S.log[S.nlog].size = size; S.log[S.nlog].write = write; S.log[S.nlog].atomic = atomic; for (int i = 0; i < MAXT; i++) S.log[S.nlog].vc[i] = S.vc[tl_tid][i]; S.nlog++; } else S.overflow = 1;
  pick(tl_tid, S.nlog - 1);
  tl_busy = 0;
}

// ---- cooperative locks: for scheduled threads a lock is a table entry (only one thread runs at a time); a thread that
// finds it taken becomes disabled until the owner releases it. Covers pthread mutexes and C++ static-initialisation guards.
struct Lock { const void *addr; int owner; int vc[MAXT]; };
// happens-before: release (unlock, atomic store, guard release) publishes the thread's clock in the sync object and
// advances the thread's own component; acquire (lock, atomic load, guard acquire) joins the object's clock
static Lock *lock_of(const void *m);
void hb_release(const void *m) { if (tl_tid < 0) return; S.syncops++; Lock *l = lock_of(m); for (int i = 0; i < MAXT; i++) if (S.vc[tl_tid][i] > l->vc[i]) l->vc[i] = S.vc[tl_tid][i]; S.vc[tl_tid][tl_tid]++; }
void hb_acquire(const void *m) { if (tl_tid < 0) return; Lock *l = lock_of(m); for (int i = 0; i < MAXT; i++) if (l->vc[i] > S.vc[tl_tid][i]) S.vc[tl_tid][i] = l->vc[i]; }
static Lock locks[256]; static int nlocks = 0;
static Lock *lock_of(const void *m) { for (int i = 0; i < nlocks; i++) if (locks[i].addr == m) return &locks[i]; if (nlocks < 256) { memset(&locks[nlocks], 0, sizeof(Lock)); locks[nlocks].addr = m; locks[nlocks].owner = -1; return &locks[nlocks++]; } fprintf(stderr, "ERROR: lock table full\n"); _exit(2); }
void coop_lock(const void *m) {
  tl_busy++;
  pick(tl_tid, -1);  // acquiring a lock is a scheduling point
  Lock *l = lock_of(m);
  while (l->owner >= 0 && l->owner != tl_tid) { S.blocked[tl_tid] = true; S.waits_on[tl_tid] = m; pick(tl_tid, -1); l = lock_of(m); }
  l->owner = tl_tid; hb_acquire(m);
  tl_busy--;
}
int coop_trylock(const void *m) { Lock *l = lock_of(m); if (l->owner >= 0 && l->owner != tl_tid) return 16 /* EBUSY */; l->owner = tl_tid; hb_acquire(m); return 0; }
void coop_unlock(const void *m) {
  hb_release(m);
  Lock *l = lock_of(m); l->owner = -1;
  for (int t = 0; t < S.nthreads; t++) if (S.blocked[t] && S.waits_on[t] == m) { S.blocked[t] = false; S.waits_on[t] = nullptr; }
}
bool scheduled() { return tl_tid >= 0; }

struct Arg { int id; void (*body)(int); };
static void *tmain(void *v) {
  Arg *a = (Arg *)v; fwait(&S.go[a->id]); tl_tid = a->id;
  a->body(a->id);
  tl_busy = 1; S.finished[a->id] = true; pick(a->id, -1);
  return nullptr;
}
void run_threads(int n, void (*body)(int), const int *prefix, int nprefix) {
  memset((void *)&S, 0, sizeof S); nlocks = 0; S.nthreads = n; for (int t = 0; t < MAXT; t++) S.vc[t][t] = 1; S.nprefix = nprefix; for (int i = 0; i < nprefix && i < MAXP; i++) S.prefix[i] = prefix[i];
  pthread_t th[MAXT]; Arg args[MAXT];
  for (int i = 0; i < n; i++) { args[i] = {i, body}; pthread_create(&th[i], nullptr, tmain, &args[i]); }
  pick(-1, -1);
  fwait(&S.done);
  if (S.deadlock) return;  // blocked threads never finish; the caller exits the process
  for (int i = 0; i < n; i++) pthread_join(th[i], nullptr);
}
}  // namespace sc

extern "C" {
void __tsan_init() {}
void __tsan_func_entry(void *) {}
void __tsan_func_exit() {}
#define RW(n) void __tsan_read##n(void *a) { sc::access(a, n, false); } void __tsan_write##n(void *a) { sc::access(a, n, true); } \
              void __tsan_unaligned_read##n(void *a) { sc::access(a, n, false); } void __tsan_unaligned_write##n(void *a) { sc::access(a, n, true); }
RW(1) RW(2) RW(4) RW(8) RW(16)
void __tsan_read_range(void *a, unsigned long n) { sc::access(a, (int)n, false); }
void __tsan_write_range(void *a, unsigned long n) { sc::access(a, (int)n, true); }
void __tsan_vptr_update(void **p, void *) { sc::access(p, 8, true); }
void __tsan_vptr_read(void **p) { sc::access(p, 8, false); }
// atomics: performed for real; a scheduling point when they touch global memory, never a race candidate
#define AT(bits, T) \
  T __tsan_atomic##bits##_load(const volatile T *a, int) { sc::access((void *)a, bits / 8, false, true); T v = __atomic_load_n(a, __ATOMIC_SEQ_CST); sc::hb_acquire((const void *)a); return v; } \
  void __tsan_atomic##bits##_store(volatile T *a, T v, int) { sc::access((void *)a, bits / 8, true, true); sc::hb_release((const void *)a); __atomic_store_n(a, v, __ATOMIC_SEQ_CST); } \
  T __tsan_atomic##bits##_exchange(volatile T *a, T v, int) { sc::access((void *)a, bits / 8, true, true); sc::hb_acquire((const void *)a); sc::hb_release((const void *)a); return __atomic_exchange_n(a, v, __ATOMIC_SEQ_CST); } \
  T __tsan_atomic##bits##_fetch_add(volatile T *a, T v, int) { sc::access((void *)a, bits / 8, true, true); sc::hb_acquire((const void *)a); sc::hb_release((const void *)a); return __atomic_fetch_add(a, v, __ATOMIC_SEQ_CST); } \
  T __tsan_atomic##bits##_fetch_sub(volatile T *a, T v, int) { sc::access((void *)a, bits / 8, true, true); sc::hb_acquire((const void *)a); sc::hb_release((const void *)a); return __atomic_fetch_sub(a, v, __ATOMIC_SEQ_CST); } \
  T __tsan_atomic##bits##_fetch_and(volatile T *a, T v, int) { sc::access((void *)a, bits / 8, true, true); sc::hb_acquire((const void *)a); sc::hb_release((const void *)a); return __atomic_fetch_and(a, v, __ATOMIC_SEQ_CST); } \
  T __tsan_atomic##bits##_fetch_or(volatile T *a, T v, int) { sc::access((void *)a, bits / 8, true, true); sc::hb_acquire((const void *)a); sc::hb_release((const void *)a); return __atomic_fetch_or(a, v, __ATOMIC_SEQ_CST); } \
  T __tsan_atomic##bits##_fetch_xor(volatile T *a, T v, int) { sc::access((void *)a, bits / 8, true, true); sc::hb_acquire((const void *)a); sc::hb_release((const void *)a); return __atomic_fetch_xor(a, v, __ATOMIC_SEQ_CST); } \
  int __tsan_atomic##bits##_compare_exchange_strong(volatile T *a, T *e, T v, int, int) { sc::access((void *)a, bits / 8, true, true); sc::hb_acquire((const void *)a); sc::hb_release((const void *)a); return __atomic_compare_exchange_n(a, e, v, 0, __ATOMIC_SEQ_CST, __ATOMIC_SEQ_CST); } \
  int __tsan_atomic##bits##_compare_exchange_weak(volatile T *a, T *e, T v, int, int) { sc::access((void *)a, bits / 8, true, true); sc::hb_acquire((const void *)a); sc::hb_release((const void *)a); return __atomic_compare_exchange_n(a, e, v, 0, __ATOMIC_SEQ_CST, __ATOMIC_SEQ_CST); }
AT(8, unsigned char) AT(16, unsigned short) AT(32, unsigned int) AT(64, unsigned long)
void __tsan_atomic_thread_fence(int) { __atomic_thread_fence(__ATOMIC_SEQ_CST); }
void __tsan_atomic_signal_fence(int) {}
void __tsan_read_write1(void *a) { sc::access(a, 1, true); } void __tsan_read_write2(void *a) { sc::access(a, 2, true); }
void __tsan_read_write4(void *a) { sc::access(a, 4, true); } void __tsan_read_write8(void *a) { sc::access(a, 8, true); }
void __tsan_read_write16(void *a) { sc::access(a, 16, true); }

// ---- interposed synchronisation (symbols defined in the executable take precedence over libpthread / libstdc++)
}
#include <dlfcn.h>
extern "C" {
int pthread_mutex_lock(pthread_mutex_t *m) {
  if (sc::scheduled()) { sc::coop_lock(m); return 0; }
  static int (*real)(pthread_mutex_t *) = (int (*)(pthread_mutex_t *))dlsym(RTLD_NEXT, "pthread_mutex_lock"); return real(m);
}
int pthread_mutex_unlock(pthread_mutex_t *m) {
  if (sc::scheduled()) { sc::coop_unlock(m); return 0; }
  static int (*real)(pthread_mutex_t *) = (int (*)(pthread_mutex_t *))dlsym(RTLD_NEXT, "pthread_mutex_unlock"); return real(m);
}
int pthread_mutex_trylock(pthread_mutex_t *m) {
  if (sc::scheduled()) return sc::coop_trylock(m);
  static int (*real)(pthread_mutex_t *) = (int (*)(pthread_mutex_t *))dlsym(RTLD_NEXT, "pthread_mutex_trylock"); return real(m);
}
// C++ thread-safe static initialisation: guard byte 0 = initialised
int __cxa_guard_acquire(long long *g) {
  if (*(volatile char *)g) { sc::hb_acquire(g); return 0; }
  if (sc::scheduled()) { sc::coop_lock(g); if (*(volatile char *)g) { sc::coop_unlock(g); return 0; } return 1; }
  return 1;
}
void __cxa_guard_release(long long *g) { *(volatile char *)g = 1; if (sc::scheduled()) sc::coop_unlock(g); }
void __cxa_guard_abort(long long *g) { if (sc::scheduled()) sc::coop_unlock(g); }
}
