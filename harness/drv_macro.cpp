// Engine "macro": C09 (faithful substitution, priority/leftmost/longest), C10 (hygienic temporaries), C11 (budget),
// C12 (ambiguous patterns rejected, deterministic ones accepted) — through Theo::scan -> extract_macros -> apply_macros
// against R-MAC / R-LR.
#include "driver_main.hpp"
#include "oracles_prog.hpp"
#include "ref_lr.hpp"

using real::Files;

struct Case {
  Files files; std::string main; int budget = 100;
  std::string json() const { return "{\"kind\":\"macro\",\"files\":" + vf::jmap(files) + ",\"main\":" + vf::jstr(main) + ",\"budget\":" + std::to_string(budget) + "}"; }
  uint64_t hash() const { uint64_t h = vf::fnv(main) + budget; for (auto &p : files) { h = vf::fnv(p.first, h); h = vf::fnv(p.second, h); } return h; }
  std::string key() const { std::string k; for (auto &p : files) k += p.first + "=" + p.second + "|"; k += "main=" + main + "|budget=" + std::to_string(budget); for (auto &c : k) if (c == '\n') c = ' '; return k; }
  static Case from(const vf::J &j) { Case c{j["files"].strmap(), j["main"].s, 100}; if (j.has("budget")) c.budget = (int)j["budget"].i(); return c; }
};
typedef std::function<void(const Case &)> CB;
typedef drv::Level<Case> Level;
static Case mk(const std::string &defs, const std::string &stream, int budget = 100) { Case c; c.main = "main"; c.files["main"] = defs + "\n" + stream; c.budget = budget; return c; }

// ---- R-LR view of a macro pattern (documented slot grammar + MACRO -> pattern), prefix mode ---------------------------
static reflr::LRResult pattern_lr(const std::vector<ref::Tok> &pattern) {
  using namespace ref; reflr::Grammar g; enum { nID, nINT, nVALUE, nARGS, nP, nSTMT, nATOM, nMACRO }; g.nnt = 8; g.start = nMACRO;
  auto T = [](int k) { return reflr::Sym{true, k}; }; auto N = [](int n) { return reflr::Sym{false, n}; };
  g.rules = {{nID, {T(ID)}}, {nINT, {T(INT)}}, {nVALUE, {N(nID)}}, {nVALUE, {N(nINT)}}, {nVALUE, {T(RUN), N(nID), T(WITH), N(nARGS), T(END)}}, {nARGS, {N(nVALUE)}}, {nARGS, {N(nARGS), T(ARGSEP), N(nVALUE)}},
             {nP, {N(nP), T(PROGSEP), N(nSTMT)}}, {nP, {N(nSTMT)}}, {nSTMT, {N(nID), T(LABELDEC), N(nATOM)}}, {nSTMT, {N(nATOM)}}, {nATOM, {N(nID), T(ASSIGN), N(nVALUE)}},
             {nATOM, {T(LOOP), N(nID), T(DO), N(nP), T(END)}}, {nATOM, {T(WHILE), N(nID), T(NEQ_ZERO), T(DO), N(nP), T(END)}}, {nATOM, {T(GOTO), N(nID)}},
             {nATOM, {T(IF), N(nID), T(EQ), N(nINT), T(THEN), T(GOTO), N(nID)}}, {nATOM, {T(STOP)}}};
  reflr::Rule m; m.lhs = nMACRO; int maxterm = 0;
  for (auto &r : g.rules) for (auto &s : r.rhs) if (s.term) maxterm = std::max(maxterm, s.idx);
  for (auto &t : pattern) {
    switch (t.k) { case ID_TEMP: m.rhs.push_back(N(nID)); break; case INT_TEMP: m.rhs.push_back(N(nINT)); break; case ARGS_TEMP: m.rhs.push_back(N(nARGS)); break; case PROG_TEMP: m.rhs.push_back(N(nP)); break; case VALUE_TEMP: m.rhs.push_back(N(nVALUE)); break;
      default: m.rhs.push_back(T(t.k)); maxterm = std::max(maxterm, t.k); }
  }
  g.rules.push_back(m);
  return reflr::lr1(g, maxterm + 1, T_EOF, true);
}

struct Run {  // the real pipeline on one case
  Theo::ScanResult sr; Theo::MacroExtractionResult mer; Theo::MacroApplicationResult mar;
  std::string reuse;  // non-empty: applying the same extracted definitions to the same tokens a second time gave something else
  Run(const Case &c, int budget, bool twice = false) {
    sr = Theo::scan(c.files, c.main); mer = Theo::extract_macros(sr.toks); mar = Theo::apply_macros(mer.tokens, mer.macros, budget);
    if (!twice) return;
    // apply_macros only reads its arguments: a front end may apply one extracted macro set to several streams
    Theo::MacroApplicationResult again = Theo::apply_macros(mer.tokens, mer.macros, budget);
    if (again.transformed_sequence.size() != mar.transformed_sequence.size() || again.errors.size() != mar.errors.size()) reuse = "applying the same extracted definitions to the same tokens a second time gives " + std::to_string(again.transformed_sequence.size()) + " tokens and " + std::to_string(again.errors.size()) + " errors, the first time " + std::to_string(mar.transformed_sequence.size()) + " tokens and " + std::to_string(mar.errors.size()) + " errors";
    else for (size_t i = 0; i < again.transformed_sequence.size(); i++) { const Theo::Token &x = again.transformed_sequence[i], &y = mar.transformed_sequence[i]; if (x.t != y.t || x.file != y.file || x.line != y.line || (x.text != y.text && x.text.find('#') == std::string::npos)) { reuse = "applying the same extracted definitions to the same tokens a second time gives another token " + std::to_string(i) + " ('" + x.text + "' instead of '" + y.text + "')"; break; } }
  }
  bool has(Theo::ParseError::Type t) const { for (auto &e : mar.errors) if (e.t == t) return true; return false; }
};
static std::vector<ref::Tok> toks_of(const std::vector<Theo::Token> &v) { std::vector<ref::Tok> o; for (auto &t : v) o.push_back(real::totok(t)); return o; }
static std::string show(const std::vector<ref::Tok> &v) { std::string o; for (auto &t : v) { if (t.k == ref::T_EOF) continue; o += t.text + " "; } return o; }
static std::string showc(const std::vector<std::pair<int, std::string>> &v) { std::string o; for (auto &t : v) { if (t.first == ref::T_EOF) continue; o += t.second + " "; } return o; }

// all streams the reference allows after min(budget, needed) steps
struct RefOut { std::vector<std::vector<ref::Tok>> finals; long long min_needed = 0; bool some_exhausted = false, all_exhausted = true, ambiguous = false, tie = false, capped = false; };
static RefOut ref_expand_all(const std::vector<ref::Tok> &start, const std::vector<ref::MacroDef> &defs, const std::vector<bool> &usable, int budget) {
  RefOut out; std::vector<std::vector<ref::Tok>> cur = {start};
  for (int stepno = 0; stepno <= budget; stepno++) {
    std::vector<std::vector<ref::Tok>> next;
    for (auto &s : cur) {
      auto ch = ref::step_choices(s, defs, usable, stepno, &out.ambiguous);
      if (ch.size() > 1) out.tie = true;
      if (ch.empty()) { out.finals.push_back(s); out.all_exhausted = false; continue; }
      if (stepno == budget) { out.finals.push_back(s); out.some_exhausted = true; continue; }
      for (auto &n : ch) { bool dup = false; for (auto &x : next) if (ref::canon_stream(x) == ref::canon_stream(n)) dup = true; if (!dup) next.push_back(n); }
    }
    if (next.size() > 24) { out.capped = true; next.resize(24); }
    cur.swap(next);
    if (cur.empty()) break;
  }
  if (!out.some_exhausted) out.all_exhausted = false;
  return out;
}

// ---- C09 ---------------------------------------------------------------------------------------------------------------
static bool g_singlestep = true;
static void oracle_C09(const Case &c, vf::Stats &st) {
  st.add("cases"); std::string cj = c.json(), key = c.key();
  ref::ScanOut so = ref::scan(c.files, c.main); if (!so.errs.empty()) { st.add("skipped_scan_errors"); return; }
  ref::Extracted ex = ref::extract(so.toks); if (!ex.wellformed) { st.add("skipped_not_wellformed"); return; }
  std::vector<bool> usable(ex.defs.size(), true);
  Run r(c, c.budget, true);
  if (r.has(Theo::ParseError::MACRO_COMPILE_NON_LR)) { st.add("skipped_pattern_rejected(C12)"); return; }
  RefOut ro = ref_expand_all(ex.rest, ex.defs, usable, c.budget);
  if (ro.ambiguous || ro.capped) { st.add("skipped_ambiguous_reference"); return; }
  if (!r.reuse.empty() && !ro.tie) { st.violation(key, r.reuse, cj); return; }
  st.add("applied_twice_same_result");
  auto got = ref::canon_stream(toks_of(r.mar.transformed_sequence)); bool ok = false;
  for (auto &f : ro.finals) if (ref::canon_stream(f) == got) ok = true;
  bool rewrote = !(ro.finals.size() == 1 && ref::canon_stream(ro.finals[0]) == ref::canon_stream(ex.rest));
  if (rewrote) { st.add("streams_with_a_match"); st.nontrivial.insert(c.hash()); } if (ro.tie) st.add("with_ties");
  if (!ok) { st.violation(key, "expansion gives '" + showc(got) + "', reference '" + show(ro.finals[0]) + "'" + (ro.finals.size() > 1 ? " (or " + std::to_string(ro.finals.size() - 1) + " tied alternatives)" : ""), cj); return; }
  st.outcomes.insert(vf::fnv(showc(got)));
  // single-step mode: each rewriting step compared on its own (families without temporaries)
  bool temps = false; for (auto &d : ex.defs) for (auto &t : d.body) if (t.k == ref::TEMP_VAL) temps = true;
  if (g_singlestep && rewrote && !temps) {
    std::vector<Theo::Token> cur = r.mer.tokens; std::vector<std::vector<ref::Tok>> rcur = {ex.rest};
    for (int stepno = 0; stepno < 12; stepno++) {
      Theo::MacroApplicationResult one = Theo::apply_macros(cur, r.mer.macros, 1);
      std::vector<std::vector<ref::Tok>> rnext; bool any = false;
      for (auto &s : rcur) { auto ch = ref::step_choices(s, ex.defs, usable, stepno); if (ch.empty()) rnext.push_back(s); else { any = true; for (auto &n : ch) rnext.push_back(n); } }
      auto g1 = ref::canon_stream(toks_of(one.transformed_sequence)); bool ok1 = false; std::vector<std::vector<ref::Tok>> keep;
      for (auto &f : rnext) if (ref::canon_stream(f) == g1) { ok1 = true; keep.push_back(f); }
      if (!ok1) { st.violation(key, "rewriting step " + std::to_string(stepno) + " gives '" + showc(g1) + "', reference '" + show(rnext[0]) + "' (from '" + show(toks_of(cur)) + "')", cj); return; }
      st.add("single_steps_compared");
      if (!any) break;
      cur = one.transformed_sequence; rcur = keep; if (rcur.size() > 8) rcur.resize(8);
    }
  }
  if (rewrote && ex.defs.size() >= 2) st.sample("{\"source\":" + vf::jstr(c.files.at(c.main)) + ",\"result\":" + vf::jstr(showc(got)) + "}", 3);
}

struct Family { std::string name, defs; std::vector<std::string> vocab; };
static std::vector<Family> families() {
  std::vector<Family> F;
  auto both = [&](const std::string &n, const std::string &d1, const std::string &d2, std::vector<std::string> v) { F.push_back({n + "/12", d1 + "\n" + d2, v}); F.push_back({n + "/21", d2 + "\n" + d1, v}); };
  F.push_back({"id+int", "DEFINE <ID> + <INT> AS RUN inc WITH $0 , $1 END ENDDEF", {"a", "b", "+", "1", "2", ";", ":=", "-"}});
  both("longer-vs-shorter(F6)", "DEFINE <ID> + <INT> + <INT> AS long $0 ENDDEF", "DEFINE <ID> + <INT> AS short $0 ENDDEF", {"a", "+", "1", "2", ";", "b", "-", ":="});
  both("prio-chain", "DEFINE PRIO 2 a AS b ENDDEF", "DEFINE PRIO 1 b AS c ENDDEF", {"a", "b", "c", ";", "x", "1", ":=", "+"});
  both("prio-overlap", "DEFINE PRIO 1 a b AS x ENDDEF", "DEFINE PRIO 2 b c AS y ENDDEF", {"a", "b", "c", "x", "y", ";", "1", ":="});
  both("equal-prio-overlap", "DEFINE a b AS x ENDDEF", "DEFINE b c AS y ENDDEF", {"a", "b", "c", "x", "y", ";", "1", ":="});
  both("literal-text", "DEFINE a + <INT> AS left $0 ENDDEF", "DEFINE b + <INT> AS right $0 ENDDEF", {"a", "b", "c", "+", "1", "2", "-", ";"});
  both("int-literal-text", "DEFINE <ID> + 1 AS succ $0 ENDDEF", "DEFINE <ID> + 2 AS succ2 $0 ENDDEF", {"a", "b", "+", "1", "2", "3", "-", ";"});
  both("operator-text", "DEFINE <ID> * <ID> AS mul $0 $1 ENDDEF", "DEFINE <ID> / <ID> AS div $0 $1 ENDDEF", {"a", "b", "*", "/", "+", "1", ";", ":="});
  both("same-start-different-length", "DEFINE a AS one ENDDEF", "DEFINE a a AS two ENDDEF", {"a", "b", ";", "one", "two", "1", ":=", "x"});
  F.push_back({"value-slot", "DEFINE neg <V> AS RUN n WITH $0 END ENDDEF", {"neg", "a", "1", "RUN", "f", "WITH", "END", ","}});
  F.push_back({"args-slot", "DEFINE call <ID> ( <A> ) AS RUN $0 WITH $1 END ENDDEF", {"call", "f", "(", ")", "a", "1", ",", "RUN"}});
  F.push_back({"prog-slot", "DEFINE twice <P> endtwice AS $0 ; $0 ENDDEF", {"twice", "endtwice", "a", ":=", "1", ";", "STOP", "GOTO"}});
  // the same slots with whole phrases as vocabulary items, so that short streams already contain nested calls, argument
  // lists and compound statements
  F.push_back({"value-slot-phrases", "DEFINE neg <V> AS RUN n WITH $0 END ENDDEF\nDEFINE PRIO 2 <V> ! AS RUN fact WITH $0 END ENDDEF", {"neg", "a", "RUN f WITH a END", "RUN g WITH RUN f WITH 1 END , a END", "!", "x :=", ";", "7"}});
  F.push_back({"args-slot-phrases", "DEFINE call <ID> ( <A> ) AS RUN $0 WITH $1 END ENDDEF", {"call", "f", "(", ")", "a", "RUN f WITH a , 1 END", ",", "x :="}});
  F.push_back({"prog-slot-phrases", "DEFINE twice <P> endtwice AS $0 ; $0 ENDDEF\nDEFINE PRIO 2 unless <V> THEN <P> END AS LOOP $0 DO $1 END ENDDEF", {"twice", "endtwice", "a := 1", "LOOP a DO b := RUN f WITH a END END", ";", "unless a THEN", "END", "la : STOP"}});
  F.push_back({"prog-slot-keywords", "DEFINE UNLESS <V> THEN <P> END AS LOOP $0 DO $1 END ENDDEF", {"UNLESS", "THEN", "END", "a", ":=", "1", ";", "LOOP"}});
  both("creates-new-matches", "DEFINE a AS b b ENDDEF", "DEFINE b b AS c ENDDEF", {"a", "b", "c", ";", "x", "1", ":=", "+"});
  F.push_back({"reorder-and-duplicate", "DEFINE swap <ID> <ID> AS $1 $0 $1 ENDDEF", {"swap", "a", "b", "c", ";", "1", ":=", "+"}});
  F.push_back({"erasing", "DEFINE nop AS ENDDEF DEFINE drop <ID> AS ENDDEF", {"nop", "drop", "a", "b", ";", "1", ":=", "+"}});
  both("slot-vs-literal", "DEFINE get <ID> AS ident $0 ENDDEF", "DEFINE get a AS theA ENDDEF", {"get", "a", "b", "1", ";", ":=", "+", "x"});
  F.push_back({"three-macros", "DEFINE PRIO 3 <ID> ^ <INT> AS pow $0 $1 ENDDEF\nDEFINE PRIO 2 <ID> * <ID> AS mul $0 $1 ENDDEF\nDEFINE PRIO 1 <ID> + <ID> AS add $0 $1 ENDDEF", {"a", "b", "^", "*", "+", "2", ";", ":="}});
  F.push_back({"keyword-spelling", "DEFINE begin <P> end AS LOOP one DO $0 END ENDDEF", {"begin", "end", "END", "End", "a", ":=", "1", ";"}});
  F.push_back({"temporaries", "DEFINE tmp <ID> AS #0 := $0 ; $0 := #0 ; #1 := #0 ENDDEF", {"tmp", "a", "b", ";", ":=", "1", "x", "+"}});
  return F;
}
static Level fam_streams(int n, bool single_only) {
  return {std::string("macro families x streams<=") + std::to_string(n) + (single_only ? " (single-macro families)" : ""), [=](const CB &cb) {
            for (auto &f : families()) {
              if (single_only && f.name.find('/') != std::string::npos) continue;
              int V = (int)f.vocab.size();
              for (int len = 0; len <= n; len++) { std::vector<int> ix(len, 0);
                for (;;) { std::string s; for (int i = 0; i < len; i++) s += f.vocab[ix[i]] + " "; cb(mk(f.defs, s));
                  int i = 0; while (i < len && ++ix[i] == V) ix[i++] = 0; if (i == len) break; } }
            } }};
}

// large patterns (several statement / value / argument slots, 150-260 LR(1) states) x all combinations of slot fillers
static Level fam_large(bool full) {
  return {std::string("large patterns x all slot-filler combinations (") + (full ? "full pools)" : "reduced pools)"), [=](const CB &cb) {
            std::vector<std::string> P = {"a := 1", "x := RUN f WITH a END", "LOOP a DO b := 1 END", "a := 1 ; b := 2"}, V = {"a", "RUN f WITH a END", "7"}, A = {"a", "a , 7", "RUN f WITH a , 7 END , b"};
            if (!full) { P.resize(2); V.resize(2); A.resize(2); }
            struct Pat { std::string def; std::vector<std::string> parts; };  // parts: literal text or "@P" "@V" "@A" "@I"
            std::vector<Pat> pats = {
                {"DEFINE for <ID> in ( <P> , <V> = <V> , <P> ) do <P> then <P> else <P> end AS $1 ; LOOP $2 DO $4 ; $5 END ; $0 := $3 ; $6 ; $7 ENDDEF", {"for", "@I", "in", "(", "@P", ",", "@V", "=", "@V", ",", "@P", ")", "do", "@P", "then", "@P", "else", "@P", "end"}},
                {"DEFINE when <V> then <P> elsif <V> then <P> elsif <V> then <P> otherwise <P> end AS w := $0 ; $1 ; w := $2 ; $3 ; w := $4 ; $5 ; $6 ENDDEF", {"when", "@V", "then", "@P", "elsif", "@V", "then", "@P", "elsif", "@V", "then", "@P", "otherwise", "@P", "end"}},
                {"DEFINE call3 <ID> ( <A> ) ( <A> ) ( <A> ) AS $0 := RUN g WITH $3 , $2 , $1 END ENDDEF", {"call3", "@I", "(", "@A", ")", "(", "@A", ")", "(", "@A", ")"}}};
            for (auto &pt : pats) {
              std::vector<const std::vector<std::string> *> pools; std::vector<std::string> I = {"i"};
              for (auto &x : pt.parts) if (x[0] == '@') pools.push_back(x == "@P" ? &P : x == "@V" ? &V : x == "@A" ? &A : &I);
              std::vector<size_t> ix(pools.size(), 0);
              for (;;) {
                std::string s2; size_t k = 0; for (auto &x : pt.parts) s2 += (x[0] == '@' ? (*pools[k])[ix[k++]] : x) + " ";
                cb(mk(pt.def, "q := 0 ; " + s2 + "; q := 1")); 
                size_t i = 0; while (i < ix.size() && ++ix[i] == pools[i]->size()) ix[i++] = 0;
                if (i == ix.size()) break;
              }
            } }};
}

// ---- C10 ---------------------------------------------------------------------------------------------------------------
static std::string g_iflib_prio;  // "" or "PRIO n " inserted into both library definitions
static const char *IFLIB0 = "DEFINE IF <V> THEN <P> ELSE <P> END AS\n  #0 := 0;\n  #1 := 1;\n  #2 := $0;\n  LOOP #2 DO\n    #0 := 1;\n    #1 := 0\n  END;\n  LOOP #0 DO $1 END;\n  LOOP #1 DO $2 END\nENDDEF\nDEFINE SAVE <ID> <P> RESTORE AS\n  #0 := $0;\n  $1;\n  $0 := #0\nENDDEF\n";
static void oracle_C10(const Case &c, vf::Stats &st) {
  st.add("cases"); std::string cj = c.json(), key = c.key();
  ref::ScanOut so = ref::scan(c.files, c.main); if (!so.errs.empty()) { st.add("skipped_scan_errors"); return; }
  ref::Extracted ex = ref::extract(so.toks); if (!ex.wellformed) { st.add("skipped_not_wellformed"); return; }
  Run r(c, c.budget);
  if (r.has(Theo::ParseError::MACRO_COMPILE_NON_LR)) { st.add("skipped_pattern_rejected(C12)"); return; }
  RefOut ro = ref_expand_all(ex.rest, ex.defs, std::vector<bool>(ex.defs.size(), true), c.budget);
  if (ro.ambiguous || ro.capped || ro.tie || ro.some_exhausted) { st.add("skipped_reference_not_unique"); return; }
  std::vector<ref::Tok> got = toks_of(r.mar.transformed_sequence);
  // partition of temporaries by spelling must equal the reference's partition by (step, n)
  if (ref::canon_stream(got) != ref::canon_stream(ro.finals[0])) { st.violation(key, "temporaries are shared differently from the reference: '" + showc(ref::canon_stream(got)) + "', reference '" + showc(ref::canon_stream(ro.finals[0])) + "'", cj); return; }
  std::set<std::string> user_ids; for (auto &t : so.toks) if (t.k == ref::ID) user_ids.insert(t.text);
  std::set<std::string> temps;
  for (auto &t : got) if (t.k == ref::ID && !user_ids.count(t.text)) {
    bool in_ref = false; for (auto &q : ro.finals[0]) if (q.k == ref::ID && q.text == t.text) in_ref = true;
    if (in_ref) continue;  // an identifier written in a macro body
    temps.insert(t.text);
    auto lx = ref::lex(t.text, "x"); Theo::ScanResult rs = Theo::scan({{"m", t.text}}, "m");
    if ((lx.size() == 1 && lx[0].k == ref::ID) || (rs.toks.size() == 2 && rs.toks[0].t == Theo::Token::ID)) { st.violation(key, "temporary is spelled '" + t.text + "', an identifier a user can write", cj); return; }
  }
  for (auto &t : temps) if (user_ids.count(t)) { st.violation(key, "temporary '" + t + "' equals an identifier of the input", cj); return; }
  if (temps.size() >= 2) st.nontrivial.insert(c.hash()); st.max("distinct_temporaries", (long long)temps.size());
  st.outcomes.insert(vf::fnv(showc(ref::canon_stream(got))));
  // end to end: values
  orc::An a(c.files, c.main); if (a.ref_ok) { vf::Stats s2; orc::oracle_C01(a, s2); for (auto &v : s2.viol) st.violation(key, "end to end: " + v.what, cj); if (s2.cnt.count("finished")) st.add("end_to_end_runs_compared"); } else st.add("end_to_end_skipped(reference rejects the expanded source)");
  if (temps.size() >= 4) st.sample("{\"source\":" + vf::jstr(c.files.at(c.main)) + ",\"temporaries\":" + std::to_string(temps.size()) + "}", 2);
}
// all nestings up to depth d and sequences up to length 3 of IF / SAVE uses
static void gen_uses(int depth, std::vector<std::string> &out) {
  std::vector<std::string> leaf = {"x1 := x1 + 1", "x2 := 2"};
  std::vector<std::string> prev = leaf;
  if (depth > 0) { std::vector<std::string> inner; gen_uses(depth - 1, inner); prev = inner; }
  out = leaf;
  if (depth == 0) return;
  std::vector<std::string> small(prev.begin(), prev.begin() + std::min<size_t>(prev.size(), 6));
  for (auto &a : small) for (auto &b : small) { out.push_back("IF x0 THEN " + a + " ELSE " + b + " END"); }
  for (auto &a : small) { out.push_back("IF 0 THEN x3 := 3 ELSE " + a + " END"); out.push_back("SAVE x1 " + a + " RESTORE"); out.push_back("SAVE x1 " + a + " ; x1 := 7 RESTORE"); }
}
static Level fam_nestings(int depth, int seqlen) {
  return {"temporaries: nestings<=" + std::to_string(depth) + " x sequences<=" + std::to_string(seqlen), [=](const CB &cb) {
            std::vector<std::string> uses; gen_uses(depth, uses);
            for (std::string prio : {"", "PRIO 1000000 ", "PRIO 2000000 "}) for (int init = 0; init < 2; init++) {
              if (!prio.empty() && init == 0) continue;
              std::string lib = IFLIB0; size_t q = 0; while ((q = lib.find("DEFINE ", q)) != std::string::npos) { lib.insert(q + 7, prio); q += 7; }
              std::string pre = lib + "x0 := " + std::to_string(init) + ";\n";
              for (auto &a : uses) { cb(mk(pre, a));
                if (seqlen >= 2) for (auto &b : uses) { if (a.size() + b.size() > 160) continue; cb(mk(pre, a + ";\n" + b));
                  if (seqlen >= 3 && a.size() + b.size() < 70) for (auto &c3 : uses) if (c3.size() < 50) cb(mk(pre, a + ";\n" + b + ";\n" + c3)); } }
            }
            // depth ladder: the IF macro nested n deep in its THEN and in its ELSE slot, and SAVE nested n deep; a macro whose
            // slot is filled with another macro's use
            for (int n = 1; n <= 7; n++) for (int init = 0; init < 2; init++) {
              std::string pre = std::string(IFLIB0) + "x0 := " + std::to_string(init) + ";\n";
              std::string t = "x1 := x1 + 1", e = "x2 := x2 + 1", sv = "x1 := x1 + 2";
              for (int i = 0; i < n; i++) { t = "IF x0 THEN " + t + " ELSE x3 := " + std::to_string(i) + " END"; e = "IF 0 THEN x3 := 9 ELSE " + e + " END"; sv = "SAVE x1 " + sv + " ; x1 := x1 + 1 RESTORE"; }
              cb(mk(pre, t)); cb(mk(pre, e)); cb(mk(pre, sv)); cb(mk(pre, "SAVE x2 " + t + " RESTORE ;\n" + e));
            }
            // macro bodies that begin with an included fragment (the first body token of both definitions then carries the
            // same line of the same file), used nested and in sequence
            for (int init = 0; init < 2; init++) for (auto use : {"KEEP x1 SETTO7 x1 DONE", "KEEP x1 KEEP x2 x1 := 5 ; x2 := 6 DONE DONE", "SETTO7 x1 ; KEEP x1 x1 := 2 DONE", "KEEP x1 x1 := 4 ; SETTO7 x2 DONE ; SETTO7 x3"}) {
              Case c; c.main = "main"; c.budget = 100; c.files["guard"] = "g9 := 0 ;";
              c.files["main"] = std::string("x0 := ") + (init ? "1" : "0") + ";\nDEFINE KEEP <ID> <P> DONE AS INCLUDE \"guard\" #0 := $0 ;\n $1 ;\n $0 := #0\nENDDEF\n\nDEFINE SETTO7 <ID> AS INCLUDE \"guard\" #0 := 7 ;\n $0 := #0\nENDDEF\n" + use;
              cb(c);
            }
            // temporaries in every syntactic position of a body: call argument by name, call target, WHILE variable,
            // LOOP bound, operand of +c; the slot is filled with code that needs compiler scratch registers itself
            {
              std::string uselib = "PROGRAM addp IN a, b OUT a DO LOOP b DO a := a + 1 END END\n"
                                   "DEFINE WITHTMP <ID> <P> DONE AS\n  #0 := RUN addp WITH $0 , 1 END ;\n  #1 := RUN addp WITH #0 , 2 END ;\n  $1 ;\n"
                                   "  WHILE #1 != 0 DO #1 := #1 - 1 ; $0 := $0 + 1 END ;\n  $0 := RUN addp WITH #0 , $0 END\nENDDEF\n"
                                   "DEFINE BUMP <ID> BY <V> AS\n  #0 := $1 ;\n  #1 := #0 + 1 ;\n  LOOP #1 DO $0 := $0 + 1 END ;\n  $0 := RUN addp WITH $0 , #0 END\nENDDEF\n";
              std::vector<std::string> slots = {"x1 := x1 + 1", "x2 := RUN addp WITH x1 , 3 END", "x2 := RUN addp WITH RUN addp WITH x1 , 1 END , 2 END", "IF x0 THEN x1 := x1 + 1 ELSE x2 := 2 END",
                                                "SAVE x1 x1 := 7 RESTORE", "BUMP x2 BY 2", "BUMP x1 BY x2", "BUMP x1 BY RUN addp WITH x1 , 1 END"};
              std::vector<std::string> u1 = slots; for (auto &sl : slots) u1.push_back("WITHTMP x1 " + sl + " DONE");
              std::vector<std::string> u2 = u1; if (depth >= 2) for (auto &sl : u1) if (sl.rfind("WITHTMP", 0) == 0) u2.push_back("WITHTMP x2 " + sl + " ; x1 := x1 + 1 DONE");
              for (int init = 0; init < 2; init++) {
                std::string pre = std::string(IFLIB0) + uselib + "x0 := " + std::to_string(init) + ";\nx1 := 3;\n";
                for (auto &a : u2) { cb(mk(pre, a)); if (seqlen >= 2) for (auto &b : u1) cb(mk(pre, a + ";\n" + b)); }
              }
            }
            // two files defining temporaries on equal line numbers
            for (auto body : {"A x1 ; B x2", "B x1 ; A x1", "A x1 ; A x2 ; B x1", "A x1 ; B x1 ; A x1"}) {
              Case c; c.main = "main"; c.files["fa"] = "DEFINE A <ID> AS #0 := 1 ; $0 := #0 ENDDEF"; c.files["fb"] = "DEFINE B <ID> AS #0 := 2 ; $0 := $0 + #0 ENDDEF";
              c.files["main"] = std::string("INCLUDE \"fa\"\nINCLUDE \"fb\"\nPROGRAM add IN a, b OUT a DO LOOP b DO a := a + 1 END END\nDEFINE PRIO 5 <ID> + <ID> AS RUN add WITH $0 , $1 END ENDDEF\n") + body; cb(c);
            } }};
}

// ---- C11 ---------------------------------------------------------------------------------------------------------------
static void oracle_C11(const Case &c, vf::Stats &st) {
  st.add("cases"); std::string cj = c.json(), key = c.key();
  ref::ScanOut so = ref::scan(c.files, c.main); ref::Extracted ex = ref::extract(so.toks); if (!so.errs.empty() || !ex.wellformed) { st.add("skipped_not_wellformed"); return; }
  Run r(c, c.budget);
  if (r.has(Theo::ParseError::MACRO_COMPILE_NON_LR)) { st.add("skipped_pattern_rejected(C12)"); return; }
  RefOut ro = ref_expand_all(ex.rest, ex.defs, std::vector<bool>(ex.defs.size(), true), c.budget);
  if (ro.ambiguous || ro.capped) { st.add("skipped_ambiguous_reference"); return; }
  auto got = ref::canon_stream(toks_of(r.mar.transformed_sequence)); bool ok = false, ok_exhausted = false;
  for (auto &f : ro.finals) if (ref::canon_stream(f) == got) { ok = true; std::vector<ref::Tok> probe = f; if (!ref::step_choices(probe, ex.defs, std::vector<bool>(ex.defs.size(), true), c.budget).empty()) ok_exhausted = true; }
  if (!ok) { st.violation(key, "after at most " + std::to_string(c.budget) + " steps the stream is '" + showc(got) + "', reference '" + show(ro.finals[0]) + "'", cj); return; }
  size_t maxbody = 0, in_len = ex.rest.size(); for (auto &d : ex.defs) maxbody = std::max(maxbody, d.body.size());
  bool slots = false; for (auto &d : ex.defs) if (!d.slots.empty()) slots = true;
  if (!slots && got.size() > in_len + (size_t)c.budget * maxbody) { st.violation(key, "stream grew from " + std::to_string(in_len) + " to " + std::to_string(got.size()) + " tokens with budget " + std::to_string(c.budget) + " and bodies of at most " + std::to_string(maxbody), cj); return; }
  bool err = r.has(Theo::ParseError::MACRO_APPLY_REACHED_MAX_PASSES);
  if (ok_exhausted) { st.add("budget_exhausted"); st.nontrivial.insert(c.hash());
    if (!err) { st.violation(key, "rewriting was still possible after " + std::to_string(c.budget) + " steps but no too-many-substitutions error was reported", cj); return; } }
  else st.add("terminated_within_budget");
  if (err && c.budget >= 2) {
    // the front end must not pass an unfinished expansion on as a correct program
  }
  st.outcomes.insert(vf::mix(vf::fnv(showc(got)) + err));
  if (ok_exhausted) st.sample("{\"source\":" + vf::jstr(c.files.at(c.main)) + ",\"budget\":" + std::to_string(c.budget) + ",\"result\":" + vf::jstr(showc(got)) + "}", 2);
}
// geometric and linear growth: a macro that re-creates its own match and multiplies / extends the stream. Rewriting is
// possible after every step by construction, so the error must be reported and the size must follow the recurrence.
static Level fam_growth(bool thorough) {
  return {"growing self-reproducing macros (geometric: budgets 4..17, linear: budget 1024)", [=](const CB &cb) {
            for (int b : {4, 8, 12, 14, 15, 16, 17}) { Case c; c.main = "growth"; c.budget = b; c.files["growth"] = "DEFINE foo <V> AS foo RUN f WITH $0 , $0 END ENDDEF\nfoo a"; cb(c); }
            if (thorough) { std::string body; for (int i = 0; i < 24; i++) body += "; a" + std::to_string(i) + " := 0 "; Case c; c.main = "growth"; c.budget = 1024; c.files["growth"] = "DEFINE seed := 0 AS seed := 0 " + body + "ENDDEF\nseed := 0"; cb(c); }
          }};
}
static void oracle_C11_growth(const Case &c, vf::Stats &st) {
  st.add("cases"); Run r(c, c.budget); size_t got = r.mar.transformed_sequence.size(); bool err = r.has(Theo::ParseError::MACRO_APPLY_REACHED_MAX_PASSES);
  const std::string &src = c.files.at("growth");
  bool geometric = src.find("$0 , $0") != std::string::npos;
  size_t want = geometric ? (size_t)(6ULL * (1ULL << c.budget) - 3) : (size_t)(4 + 96ULL * c.budget);  // incl. the EOF token
  if (src.find("a AS a ENDDEF\na") != std::string::npos) want = 2;                                 // a -> a
  else if (src.find("a AS a b ENDDEF") != std::string::npos) want = 2 + (size_t)c.budget;           // a -> a b
  else if (src.find("b AS a ENDDEF") != std::string::npos) want = 4;                                // a <-> b
  st.nontrivial.insert(c.hash()); st.add("budget_exhausted"); st.max("tokens_after_expansion", (long long)got); st.outcomes.insert(vf::mix(got * 2 + err));
  if (got != want) { st.violation(c.key(), "after " + std::to_string(c.budget) + " rewriting steps the stream has " + std::to_string(got) + " tokens, " + std::to_string(want) + " expected (each step " + (geometric ? "doubles the slot" : "adds 96 tokens") + ")", c.json()); return; }
  if (!err) st.violation(c.key(), "rewriting was still possible after " + std::to_string(c.budget) + " steps (" + std::to_string(got) + " tokens) but no too-many-substitutions error was reported", c.json());
}
static Level fam_budget(int maxstream, int maxbudget) {
  return {"all macro sets<=2 defs (pattern 1-2, body 0-2 tokens over {a,b}) x streams<=" + std::to_string(maxstream) + " x budgets 1.." + std::to_string(maxbudget), [=](const CB &cb) {
            std::vector<std::string> seqs[3]; seqs[0] = {""}; for (auto x : {"a", "b"}) { seqs[1].push_back(x); for (auto y : {"a", "b"}) seqs[2].push_back(std::string(x) + " " + y); }
            std::vector<std::string> defs;
            for (int pl = 1; pl <= 2; pl++) for (auto &p : seqs[pl]) for (int bl = 0; bl <= 2; bl++) for (auto &b : seqs[bl]) defs.push_back("DEFINE " + p + " AS " + b + " ENDDEF");
            std::vector<std::string> streams; for (int l = 0; l <= maxstream; l++) { std::vector<int> ix(l, 0); for (;;) { std::string s; for (int i = 0; i < l; i++) s += ix[i] ? "b " : "a "; streams.push_back(s); int i = 0; while (i < l && ++ix[i] == 2) ix[i++] = 0; if (i == l) break; } }
            for (size_t i = 0; i < defs.size(); i++) for (size_t j = i; j <= defs.size(); j++) {
              std::string d = defs[i] + (j < defs.size() && j != i ? "\n" + defs[j] : ""); if (j == i) continue;
              for (auto &s : streams) for (int b = 1; b <= maxbudget; b++) cb(mk(d, s, b));
            } }};
}
// compile() with self-reproducing sets: the unfinished expansion must not be passed on as correct
static Level fam_compile_divergent() {
  return {"compile() with self-reproducing macro sets (budget 1024)", [=](const CB &cb) {
            for (auto d : {"DEFINE a AS a ENDDEF", "DEFINE a AS b ENDDEF DEFINE b AS a ENDDEF", "DEFINE x0 := 1 AS x0 := 1 ENDDEF", "DEFINE PRIO 3 a AS a ENDDEF DEFINE a AS x0 := 1 ENDDEF", "DEFINE PRIO 1000000 a AS a ENDDEF", "DEFINE PRIO 2000000 a AS b ENDDEF DEFINE PRIO 1000000 b AS a ENDDEF", "DEFINE more AS x0 := x0 + 1 ; more ENDDEF"})
              for (auto s : {"a", "x0 := 1", "x0 := 1 ; a", "more"}) cb(mk(d, s, 1024));
          }};
}
static void oracle_C11_compile(const Case &c, vf::Stats &st) {
  ref::ScanOut so = ref::scan(c.files, c.main); ref::Extracted ex = ref::extract(so.toks);
  std::vector<ref::MacroDef> defs = ref::standard_macros(); for (auto &d : ex.defs) defs.push_back(d);
  ref::Expanded e = ref::expand(ex.rest, defs, std::vector<bool>(defs.size(), true), 1024);
  Theo::CodegenResult cr = Theo::compile(c.files, c.main); st.add("cases"); st.add("compile_runs");
  if (e.exhausted && cr.generated_correctly) st.violation(c.key(), "expansion does not finish within 1024 steps but compile() marks the program correct", c.json());
  if (e.exhausted) { st.add("budget_exhausted"); st.nontrivial.insert(c.hash()); }
}

// ---- C12 ---------------------------------------------------------------------------------------------------------------
static std::vector<std::string> pattern_symbols() { return {"<ID>", "<INT>", "<V>", "<A>", "<P>", ";", ",", ":=", ":", "END", "DO", "THEN", "(", ")", "foo", "1", "+"}; }
static std::string instance_of(const std::string &sym) { if (sym == "<ID>") return "x"; if (sym == "<INT>") return "7"; if (sym == "<V>") return "y"; if (sym == "<A>") return "y , 3"; if (sym == "<P>") return "STOP ; GOTO l"; return sym; }
static void oracle_C12(const Case &c, vf::Stats &st) {
  st.add("cases"); std::string cj = c.json(), key = c.key();
  ref::ScanOut so = ref::scan(c.files, c.main); ref::Extracted ex = ref::extract(so.toks); if (!so.errs.empty() || !ex.wellformed || ex.defs.size() < 2 || ex.defs.size() > 3) { st.add("skipped_not_wellformed"); return; }
  size_t lead = ex.defs.size() - 2;  // 1 when the tested definition follows another (rejected) one
  reflr::LRResult lr = pattern_lr(ex.defs[lead].pattern);
  if (lr.states < 0) { st.add("skipped_reference_state_cap"); return; }
  bool ref_reject = lr.conflicts > 0;
  Run r(c, c.budget);
  std::vector<Theo::ParseError> nonlr; for (auto &e : r.mar.errors) if (e.t == Theo::ParseError::MACRO_COMPILE_NON_LR) nonlr.push_back(e);
  st.nontrivial.insert(c.hash()); st.add(ref_reject ? "patterns_not_prefix_deterministic" : "patterns_prefix_deterministic");
  if (lead) {
    // the leading macro 'lead <P>' is always rejected; the tested one must still be judged on its own
    if (nonlr.empty()) { st.violation(key, "the leading macro 'lead <P>' (pattern ends in a statement slot) is not reported", cj); return; }
    nonlr.erase(nonlr.begin()); st.add("tested_after_a_rejected_macro");
  }
  if (ref_reject != !nonlr.empty()) { st.violation(key, std::string("pattern is ") + (ref_reject ? "not prefix-deterministic (" + (lr.conflict_desc.empty() ? std::string() : lr.conflict_desc[0]) + ")" : "prefix-deterministic") + " but the macro is " + (nonlr.empty() ? "accepted" : "reported as non-linear"), cj); return; }
  if (nonlr.size() > 1) { st.violation(key, "several non-linear errors for one rejected pattern (the companion macro is deterministic)", cj); return; }
  if (!nonlr.empty()) { const ref::Tok &first = ex.defs[lead].pattern[0]; if (nonlr[0].file != first.file || nonlr[0].line != first.line) { st.violation(key, "non-linear error located at " + nonlr[0].file + ":" + std::to_string(nonlr[0].line) + ", the pattern starts at " + first.file + ":" + std::to_string(first.line), cj); return; } }
  std::vector<bool> usable = {!ref_reject, true}; if (lead) usable.insert(usable.begin(), false);
  RefOut ro = ref_expand_all(ex.rest, ex.defs, usable, c.budget);
  if (ro.ambiguous || ro.capped || ro.some_exhausted) { st.add("application_not_compared(ambiguous or diverging)"); st.outcomes.insert(ref_reject); return; }
  auto got = ref::canon_stream(toks_of(r.mar.transformed_sequence)); bool ok = false; for (auto &f : ro.finals) if (ref::canon_stream(f) == got) ok = true;
  if (!ok) { st.violation(key, std::string(ref_reject ? "rejected" : "accepted") + " pattern: stream becomes '" + showc(got) + "', reference '" + show(ro.finals[0]) + "'", cj); return; }
  st.add("applications_compared"); st.outcomes.insert(vf::mix(vf::fnv(showc(got)) + ref_reject));
  if (ex.defs[lead].pattern.size() >= 3) st.sample("{\"pattern\":" + vf::jstr(show(ex.defs[lead].pattern)) + ",\"rejected\":" + (ref_reject ? "true" : "false") + "}", 4);
}
static Level fam_patterns(int k, bool lists_only = false) {
  return {"all patterns<=" + std::to_string(k) + (lists_only ? " over 7 list-related symbols" : " over 17 symbols"), [=](const CB &cb) {
            auto S = pattern_symbols(); if (lists_only) S = {"<A>", "<P>", "<V>", ",", ";", ")", "foo"}; int V = (int)S.size();
            for (int len = 1; len <= k; len++) { std::vector<int> ix(len, 0);
              for (;;) { std::string pat, inst; for (int i = 0; i < len; i++) { pat += S[ix[i]] + " "; inst += instance_of(S[ix[i]]) + " "; }
                std::string defs = "\nDEFINE " + pat + "AS zap ENDDEF\nDEFINE bar AS baz ENDDEF";
                cb(mk(defs, "bar " + inst + "bar", 50)); cb(mk(defs, inst + "; a := 1 ; " + inst + "bar ) 1 foo", 50));
                if (len <= 3) cb(mk("\nDEFINE lead <P> AS zip ENDDEF" + defs, "bar " + inst + "bar", 50));  // directly after another rejected macro
                int i = 0; while (i < len && ++ix[i] == V) ix[i++] = 0; if (i == len) break; } } }};
}

// pattern-length ladder: k <V> k <V> ... with n slots (deterministic), the same ending in a list slot (not), and
// alternating statement slots with distinct followers; the tables grow past 256 states
static Level fam_pattern_ladder(int N) {
  return {"pattern-length ladder n=1.." + std::to_string(N), [=](const CB &cb) {
            std::vector<std::string> follow = {")", "THEN", "DO", ",", ":", "(", ":=", "foo", "1", "+"};
            for (int n = 1; n <= N; n++) {
              std::string det, inst, bad, pdet, pinst;
              for (int i = 0; i < n; i++) { det += "k <V> "; inst += "k y "; pdet += "<P> " + follow[i % follow.size()] + " "; pinst += "STOP ; GOTO l " + follow[i % follow.size()] + " "; }
              bad = det + "k <A> ";
              for (auto pr : {std::make_pair(det + "k", inst + "k"), std::make_pair(bad, inst + "k y , 3"), std::make_pair("w " + pdet, "w " + pinst)}) {
                std::string defs = "\nDEFINE " + pr.first + " AS zap ENDDEF\nDEFINE bar AS baz ENDDEF";
                cb(mk(defs, "bar " + pr.second + " bar", 50));
              }
            } }};
}
static Level fam_budget_ladder() {
  return {"budget ladder 1..1024 on non-growing and slowly growing self-reproducing sets", [=](const CB &cb) {
            // the same at the priority of the built-in operator macros and around it (small budgets)
            for (std::string pr : {"PRIO 999999 ", "PRIO 1000000 ", "PRIO 1000001 ", "PRIO 2000000 "}) for (int b : {1, 3, 8}) {
              { Case c = mk("DEFINE " + pr + "a AS a ENDDEF", "a", b); c.main = "growth"; c.files["growth"] = c.files["main"]; c.files.erase("main"); cb(c); }
              { Case c = mk("DEFINE " + pr + "a AS b ENDDEF DEFINE PRIO 1000000 b AS a ENDDEF", "x a y", b); c.main = "growth"; c.files["growth"] = c.files["main"]; c.files.erase("main"); cb(c); }
              { Case c = mk("DEFINE " + pr + "a AS a b ENDDEF", "a", b); c.main = "growth"; c.files["growth"] = c.files["main"]; c.files.erase("main"); cb(c); }
            }
            for (int b : {1, 2, 3, 7, 8, 9, 15, 16, 17, 31, 32, 33, 63, 64, 65, 127, 128, 255, 256, 257, 511, 1023, 1024}) {
              { Case c = mk("DEFINE a AS a ENDDEF", "a", b); c.main = "growth"; c.files["growth"] = c.files["main"]; c.files.erase("main"); cb(c); }
              { Case c = mk("DEFINE a AS a b ENDDEF", "a", b); c.main = "growth"; c.files["growth"] = c.files["main"]; c.files.erase("main"); cb(c); }
              { Case c = mk("DEFINE a AS b ENDDEF DEFINE b AS a ENDDEF", "x a y", b); c.main = "growth"; c.files["growth"] = c.files["main"]; c.files.erase("main"); cb(c); }
            } }};
}

int main(int argc, char **argv) {
  drv::Args args = drv::Args::parse(argc, argv); bool T = args.thorough();
  std::vector<Level> L; std::function<void(const Case &, vf::Stats &)> o; double limit = 30;
  if (args.prop == "C09" && args.part == "large") { o = oracle_C09; g_singlestep = false; L = {fam_large(false)}; limit = 120; }
  else if (args.prop == "C09") { o = oracle_C09; L = {fam_streams(3, false), fam_large(false), fam_streams(4, false)}; if (T) L.push_back(fam_large(true)); if (T) { L.push_back(fam_streams(5, false)); L.push_back(fam_streams(6, true)); } }
  else if (args.prop == "C10") { o = oracle_C10; L = {fam_nestings(1, 3), fam_nestings(2, 2)}; if (T) { L.push_back(fam_nestings(2, 3)); L.push_back(fam_nestings(3, 2)); } }
  else if (args.prop == "C11") {
    o = [](const Case &c, vf::Stats &st) { if (c.main == "growth") oracle_C11_growth(c, st); else if (c.budget == 1024) oracle_C11_compile(c, st); else oracle_C11(c, st); };
    L = {fam_compile_divergent(), fam_growth(T), fam_budget_ladder(), fam_budget(2, 4), fam_budget(3, 6)}; if (T) L.push_back(fam_budget(4, 8));
  }
  else if (args.prop == "C12") { o = oracle_C12; L = {fam_patterns(2), fam_pattern_ladder(T ? 16 : 10), fam_patterns(3), fam_patterns(5, true)}; if (T) { L.push_back(fam_patterns(4)); L.push_back(fam_patterns(6, true)); } }
  else { fprintf(stderr, "ERROR: unknown property %s\n", args.prop.c_str()); return 2; }
  return drv::run<Case>(args, L, o, {}, limit);
}
