// Engine "det" (sequential half of C18): all operation histories up to a length, each operation's complete result compared
// with the same operation executed first in a fresh process; all interleavings of two VMs' API histories.
#include "det_bodies.hpp"
#include "driver_main.hpp"

struct Case {
  std::string kind;             // "history" | "twovm"
  std::vector<int> ops;         // history: operation indices; twovm: [historyA, historyB, interleaving bits...]
  std::string json() const { return "{\"kind\":" + vf::jstr(kind) + ",\"ops\":" + vf::jarr_num(ops) + "}"; }
  uint64_t hash() const { uint64_t h = vf::fnv(kind); for (int o : ops) h = vf::mix(h * 31 + o + 1); return h; }
  std::string key() const { return kind + ":" + vf::jarr_num(ops); }
  static Case from(const vf::J &j) { Case c; c.kind = j["kind"].s; for (auto &o : j["ops"].a) c.ops.push_back((int)o.i()); return c; }
};
typedef std::function<void(const Case &)> CB;
typedef drv::Level<Case> Level;

static std::vector<std::string> g_corpus_baseline;  // result of each corpus compilation executed first in a fresh process
static std::vector<std::string> g_baseline;  // result of each operation executed first in a fresh process
static std::string in_fresh_process(const std::function<std::string()> &f) {
  int fd[2]; if (pipe(fd)) exit(2); fflush(0); pid_t p = fork();
  if (p == 0) { close(fd[0]); std::string s = f(); size_t off = 0; while (off < s.size()) { ssize_t n = write(fd[1], s.data() + off, s.size() - off); if (n <= 0) break; off += n; } _exit(0); }
  close(fd[1]); std::string out; char buf[65536]; ssize_t n; while ((n = read(fd[0], buf, sizeof buf)) > 0) out.append(buf, n); close(fd[0]); int st; waitpid(p, &st, 0);
  if (!WIFEXITED(st) || WEXITSTATUS(st)) { fprintf(stderr, "ERROR: baseline process failed\n"); exit(2); }
  return out;
}
static std::string first_diff(const std::string &a, const std::string &b) { size_t i = 0; while (i < a.size() && i < b.size() && a[i] == b[i]) i++; size_t from = i > 40 ? i - 40 : 0; return "at byte " + std::to_string(i) + ": '" + a.substr(from, 90) + "' vs fresh '" + b.substr(from, 90) + "'"; }

// ---- two VMs ------------------------------------------------------------------------------------------------------------
static std::vector<std::vector<int>> vm_histories(int len) {  // API alphabet: 0 execute 1 single x3 2 bp(main:4) 3 bp(lib:9) 4 stepping on 5 reset 6 clear 7 stepping off
  std::vector<std::vector<int>> all = {{2, 0, 0, 1}, {3, 0, 4, 0}, {4, 0, 0, 0}, {2, 3, 0, 5}, {0, 5, 2, 0}, {1, 1, 2, 0}, {3, 0, 6, 0}, {4, 0, 7, 0}, {2, 0, 5, 0}, {1, 4, 0, 1}, {3, 2, 0, 0}, {2, 0, 3, 0}};
  for (auto &h : all) h.resize(len); return all;
}
static std::string vm_apply(Theo::VM &vm, int op) {
  switch (op) { case 0: vm.execute(); break; case 1: vm.executeSingle(); vm.executeSingle(); vm.executeSingle(); break; case 2: vm.setBreakPoint("main", 4, true); break; case 3: vm.setBreakPoint("lib", 9, true); break;
    case 4: vm.setSteppingMode(true); break; case 5: vm.reset(); break; case 6: vm.clearBreakpoints(); break; default: vm.setSteppingMode(false); }
  return det::ser_vm(vm);
}

static void oracle(const Case &c, vf::Stats &st) {
  st.add("cases"); std::string cj = c.json(), key = c.key();
  if (c.kind == "fresh") {
    std::string r = in_fresh_process([&]() { return det::run_op(c.ops[0], nullptr); });
    st.nontrivial.insert(c.hash()); st.outcomes.insert(vf::fnv(r));
    if (r != g_baseline[c.ops[0]]) st.violation(key, std::string("two fresh processes disagree on ") + det::op_name(c.ops[0]) + " " + first_diff(r, g_baseline[c.ops[0]]), cj);
    return;
  }
  if (c.kind == "corpus") {
    std::string verdict = in_fresh_process([&]() {
      std::string v;
      for (size_t i = 0; i < c.ops.size(); i++) { std::string r = det::run_corpus(c.ops[i]); if (r != g_corpus_baseline[c.ops[i]]) { v = "compilation " + std::to_string(i) + " (" + det::corpus()[c.ops[i]].what + ") after"; for (size_t k = 0; k < i; k++) v += std::string(" [") + det::corpus()[c.ops[k]].what + "]"; v += " differs from its result in a fresh process " + first_diff(r, g_corpus_baseline[c.ops[i]]); break; } }
      return v; });
    st.add("operations_compared", (long long)c.ops.size()); st.nontrivial.insert(c.hash()); st.outcomes.insert(vf::fnv(verdict) ^ vf::fnv(g_corpus_baseline[c.ops.back()]));
    if (!verdict.empty()) st.violation(key, verdict, cj);
    return;
  }
  if (c.kind == "history") {
    // the whole history runs in one fresh process
    std::string verdict = in_fresh_process([&]() {
      std::vector<Theo::VM *> keep; std::string v;
      for (size_t i = 0; i < c.ops.size(); i++) { std::string r = det::run_op(c.ops[i], &keep); if (r != g_baseline[c.ops[i]]) { v = "operation " + std::to_string(i) + " (" + det::op_name(c.ops[i]) + ") differs from its result in a fresh process " + first_diff(r, g_baseline[c.ops[i]]); break; } }
      return v; });
    st.add("operations_compared", (long long)c.ops.size());
    if (c.ops.size() >= 2) st.nontrivial.insert(c.hash());
    st.outcomes.insert(vf::fnv(verdict));
    if (!verdict.empty()) st.violation(key, verdict, cj);
    else if (c.ops.size() >= 3) { std::string names; for (int o : c.ops) names += std::string(det::op_name(o)) + " ; "; st.sample("{\"history\":" + vf::jstr(names) + "}", 2); }
    return;
  }
  // twovm: ops = [ia, ib, la, lb, mask]  — interleaving mask picks which VM moves at each of the la+lb positions
  int ia = c.ops[0], ib = c.ops[1], la = c.ops[2], lb = c.ops[3]; unsigned mask = (unsigned)c.ops[4]; bool different_programs = c.ops.size() > 5 && c.ops[5];
  auto HA = vm_histories(la)[ia], HB = vm_histories(lb)[ib];
  std::string verdict = in_fresh_process([&]() {
    Theo::CodegenResult cr = Theo::compile(det::src_S1(), "main"); std::string before = det::ser_result(cr);
    // second program: same file names and line numbers, but an edited text (every site sits at another code index)
    det::Files f2 = det::src_S1(); { std::string &m = f2["main"]; size_t p = m.find("x0 := 3;"); m.replace(p, 8, "x0 := 2; x7 := x0; x0 := x0 + 1;"); }
    Theo::CodegenResult cr2 = different_programs ? Theo::compile(f2, "main") : cr; std::string before2 = det::ser_result(cr2);
    std::vector<std::string> soloA, soloB; { Theo::VM a(cr.code); for (int o : HA) soloA.push_back(vm_apply(a, o)); } { Theo::VM b(cr2.code); for (int o : HB) soloB.push_back(vm_apply(b, o)); }
    Theo::VM a(cr.code), b(cr2.code); size_t pa = 0, pb = 0; std::string v;
    for (int i = 0; i < la + lb && v.empty(); i++) {
      bool moveA = (mask >> i) & 1;
      if (moveA) { std::string r = vm_apply(a, HA[pa]); if (r != soloA[pa]) v = "VM A call " + std::to_string(pa) + " observes '" + r.substr(0, 120) + "', alone '" + soloA[pa].substr(0, 120) + "'"; pa++; }
      else { std::string r = vm_apply(b, HB[pb]); if (r != soloB[pb]) v = "VM B call " + std::to_string(pb) + " observes '" + r.substr(0, 120) + "', alone '" + soloB[pb].substr(0, 120) + "'"; pb++; }
    }
    if (v.empty() && (det::ser_result(cr) != before || det::ser_result(cr2) != before2)) v = "the compilation result the VMs were built from was modified";
    return v; });
  st.nontrivial.insert(c.hash()); st.add("vm_calls_compared", la + lb); st.outcomes.insert(vf::fnv(verdict) ^ c.ops[0] * 131 ^ c.ops[1]);
  if (!verdict.empty()) st.violation(key, verdict, cj);
}

static Level fam_histories(int d) {
  return {"all histories<=" + std::to_string(d) + " over " + std::to_string(det::NOPS) + " operations", [=](const CB &cb) {
            for (int len = 1; len <= d; len++) { std::vector<int> ix(len, 0);
              for (;;) { Case c; c.kind = "history"; c.ops = ix; cb(c); int i = 0; while (i < len && ++ix[i] == det::NOPS) ix[i++] = 0; if (i == len) break; } } }};
}
static Level fam_corpus(int d) {
  return {"all sequences<=" + std::to_string(d) + " of " + std::to_string(det::corpus().size()) + " name-colliding compilations", [=](const CB &cb) {
            int N = (int)det::corpus().size();
            for (int len = 2; len <= d; len++) { std::vector<int> ix(len, 0);
              for (;;) { Case c; c.kind = "corpus"; c.ops = ix; cb(c); int i = 0; while (i < len && ++ix[i] == N) ix[i++] = 0; if (i == len) break; } } }};
}
static Level fam_twovm(int la, int lb, bool different_programs = false) {
  return {std::string("two VMs on ") + (different_programs ? "two different programs (same files/lines)" : "one program") + ": 12x12 history pairs (" + std::to_string(la) + "," + std::to_string(lb) + " calls) x all interleavings", [=](const CB &cb) {
            for (int ia = 0; ia < 12; ia++) for (int ib = 0; ib < 12; ib++) for (unsigned mask = 0; mask < (1u << (la + lb)); mask++) {
              if (__builtin_popcount(mask) != la) continue;
              Case c; c.kind = "twovm"; c.ops = {ia, ib, la, lb, (int)mask, different_programs ? 1 : 0}; cb(c); } }};
}

int main(int argc, char **argv) {
  drv::Args args = drv::Args::parse(argc, argv); bool T = args.thorough();
  for (int i = 0; i < det::NOPS; i++) g_baseline.push_back(in_fresh_process([i]() { return det::run_op(i, nullptr); }));
  for (int i = 0; i < (int)det::corpus().size(); i++) g_corpus_baseline.push_back(in_fresh_process([i]() { return det::run_corpus(i); }));
  Level fresh = {"reproducible across fresh processes", [](const CB &cb) { for (int rep = 0; rep < 3; rep++) for (int i = 0; i < det::NOPS; i++) { Case c; c.kind = "fresh"; c.ops = {i, rep}; cb(c); } }};
  std::vector<Level> L = {fresh, fam_corpus(2), fam_histories(3), fam_twovm(3, 2), fam_twovm(3, 2, true), fam_corpus(3)};
  if (T) { L.push_back(fam_histories(4)); L.push_back(fam_twovm(4, 3)); L.push_back(fam_twovm(4, 3, true)); L.push_back(fam_histories(5)); }
  return drv::run<Case>(args, L, oracle, {}, 60);
}
