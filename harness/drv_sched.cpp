// Engine "sched" (concurrent half of C18): stateless exploration of ALL interleavings of 2-3 threads running compile() /
// VM executions, with scheduling points at every access to process-global memory (see sched/mini_rt.cpp), iterated by
// preemption bound; each execution runs in a freshly forked child.  Oracles: (i) no two threads touch the same global
// bytes with at least one write (there is no synchronisation, so any such pair is a data race in every schedule);
// (ii) every thread's serialised result equals its result when run alone in a fresh process.
#include "det_bodies.hpp"
#include "driver_main.hpp"
#include "sched/mini_rt.hpp"

struct Harness { const char *name; std::vector<int> ops; };  // one operation (det::run_op index) per thread
static std::vector<Harness> harnesses() {
  return {{"compile(S1) || compile(S1)", {0, 0}}, {"compile(S1) || compile(S2)", {0, 1}}, {"compile(S3) || run VM", {2, 3}}, {"run VM || debug VM", {3, 4}},
          {"scan || extract+apply macros", {5, 6}}, {"compile(S1) || compile(S1 shifted)", {0, 7}}, {"compile(S4) || compile(S1)", {8, 0}}, {"compile(S1) || compile(S2) || run VM", {0, 1, 3}}};
}
static const Harness *g_h; static std::string g_results[sc::MAXT];
static void body(int tid) { g_results[tid] = det::run_op(g_h->ops[tid], nullptr); }

struct Exec { int syncops = 0; bool ok = false; std::vector<sc::Point> points; std::vector<sc::Access> log; std::vector<uint64_t> results; std::string err; };
static Exec run_one(const Harness &h, const std::vector<int> &prefix) {
  Exec x; int fd[2]; if (pipe(fd)) exit(2); fflush(0); pid_t p = fork();
  if (p == 0) {
    close(fd[0]); alarm(120); g_h = &h;
    sc::run_threads((int)h.ops.size(), body, prefix.data(), (int)prefix.size());
    std::string o = std::to_string(sc::S.npoints) + " " + std::to_string(sc::S.nlog) + " " + std::to_string(sc::S.deadlock ? 2 : sc::S.overflow) + " " + std::to_string(sc::S.syncops) + "\n";
    for (int i = 0; i < sc::S.npoints; i++) { auto &q = sc::S.points[i]; o += std::to_string(q.nen) + " " + std::to_string(q.cur_enabled) + " " + std::to_string(q.chosen) + " " + std::to_string(q.from) + " " + std::to_string(q.next) + " " + std::to_string(q.enabled_mask) + " " + std::to_string(q.acc) + "\n"; }
    for (int i = 0; i < sc::S.nlog; i++) { auto &a = sc::S.log[i]; o += std::to_string(a.tid) + " " + std::to_string(a.off) + " " + std::to_string(a.size) + " " + std::to_string(a.write) + " " + std::to_string(a.atomic); for (int v = 0; v < sc::MAXT; v++) o += " " + std::to_string(a.vc[v]); o += "\n"; }
    for (size_t t = 0; t < h.ops.size(); t++) o += std::to_string(vf::fnv(g_results[t])) + "\n";
    size_t off = 0; while (off < o.size()) { ssize_t n = write(fd[1], o.data() + off, o.size() - off); if (n <= 0) break; off += n; }
    _exit(0);
  }
  close(fd[1]); std::string out; char buf[65536]; ssize_t n; while ((n = read(fd[0], buf, sizeof buf)) > 0) out.append(buf, n); close(fd[0]); int st; waitpid(p, &st, 0);
  if (!WIFEXITED(st) || WEXITSTATUS(st)) { x.err = WIFSIGNALED(st) ? "signal " + std::to_string(WTERMSIG(st)) : "exit " + std::to_string(WEXITSTATUS(st)); return x; }
  std::istringstream in(out); int np, nl, ov; in >> np >> nl >> ov >> x.syncops; if (ov == 2) { x.err = "deadlock: every unfinished thread is blocked on a lock"; return x; } if (ov) { x.err = "log overflow"; return x; }
  for (int i = 0; i < np; i++) { sc::Point q; int ce; in >> q.nen >> ce >> q.chosen >> q.from >> q.next >> q.enabled_mask >> q.acc; q.cur_enabled = ce; x.points.push_back(q); }
  for (int i = 0; i < nl; i++) { sc::Access a; int w, at; in >> a.tid >> a.off >> a.size >> w >> at; a.write = w; a.atomic = at; for (int v = 0; v < sc::MAXT; v++) in >> a.vc[v]; x.log.push_back(a); }
  for (size_t t = 0; t < h.ops.size(); t++) { uint64_t r; in >> r; x.results.push_back(r); }
  x.ok = true; return x;
}
// two accesses race iff they are by different threads, overlap, at least one writes, not both atomic, and neither
// happens-before the other (vector clocks over locks, atomics and static-initialisation guards)
static bool races(const sc::Access &a, const sc::Access &b) {
  if (a.tid == b.tid || !(a.write || b.write) || (a.atomic && b.atomic)) return false;
  if (!(a.off < b.off + b.size && b.off < a.off + a.size)) return false;
  bool a_before_b = a.vc[a.tid] <= b.vc[a.tid], b_before_a = b.vc[b.tid] <= a.vc[b.tid];
  return !a_before_b && !b_before_a;
}
static uint64_t solo_result(int op) {
  int fd[2]; if (pipe(fd)) exit(2); fflush(0); pid_t p = fork();
  if (p == 0) { close(fd[0]); uint64_t r = vf::fnv(det::run_op(op, nullptr)); if (write(fd[1], &r, sizeof r) != sizeof r) _exit(1); _exit(0); }
  close(fd[1]); uint64_t r = 0; if (read(fd[0], &r, sizeof r) != sizeof r) { fprintf(stderr, "ERROR: solo run failed\n"); exit(2); } close(fd[0]); int st; waitpid(p, &st, 0); return r;
}

int main(int argc, char **argv) {
  drv::Args args = drv::Args::parse(argc, argv); bool T = args.thorough(); double t0 = vf::now_s();
  vf::Stats st; std::vector<std::string> done, planned; long cap = T ? 60000 : 12000;
  auto H = harnesses();
  if (!args.replay.empty()) {
    vf::J j = vf::jparse(vf::slurp(args.replay)); const vf::J &cj = j.has("case") ? j["case"] : j; int hi = (int)cj["harness"].i(); std::vector<int> sch; for (auto &c : cj["schedule"].a) sch.push_back((int)c.i());
    Exec a = run_one(H[hi], sch), b = run_one(H[hi], sch);
    printf("replay of %s schedule %s: %zu points, %zu global accesses; identical on second run: %s\n", H[hi].name, vf::jarr_num(sch).c_str(), a.points.size(), a.log.size(), (a.results == b.results && a.log.size() == b.log.size()) ? "yes" : "NO");
    bool bad = !a.ok; for (size_t t = 0; t < a.results.size(); t++) if (a.results[t] != solo_result(H[hi].ops[t])) { printf("REPLAY-VIOLATION thread %zu (%s) result differs from its solo run\n", t, det::op_name(H[hi].ops[t])); bad = true; }
    for (size_t i = 0; i < a.log.size(); i++) for (size_t k = i + 1; k < a.log.size(); k++) if (races(a.log[i], a.log[k])) { printf("REPLAY-VIOLATION threads %d and %d access global bytes at .data+%ld, at least one writes\n", a.log[i].tid, a.log[k].tid, a.log[i].off); bad = true; i = a.log.size(); break; }
    if (!bad) printf("REPLAY-OK property=C18 no violation on this schedule\n");
    return bad ? 1 : 0;
  }
  for (auto &h : H) planned.push_back(h.name);
  int maxbound = T ? 3 : 2;
  for (size_t hi = 0; hi < H.size(); hi++) {
    const Harness &h = H[hi]; std::vector<uint64_t> solo; for (int op : h.ops) solo.push_back(solo_result(op));
    long execs = 0; std::set<uint64_t> outcomes; std::vector<int> last; size_t maxpoints = 0, maxlog = 0; bool failed = false, capped = false;
    auto check = [&](const Exec &x, const std::vector<int> &prefix) {
      std::string cj = "{\"kind\":\"schedule\",\"harness\":" + std::to_string(hi) + ",\"name\":" + vf::jstr(h.name) + ",\"schedule\":" + vf::jarr_num(prefix) + "}";
      if (!x.ok) { st.violation(std::string("sched:") + h.name + ":crash", "execution failed (" + x.err + ") under schedule " + vf::jarr_num(prefix), cj); failed = true; return; }
      maxpoints = std::max(maxpoints, x.points.size()); maxlog = std::max(maxlog, x.log.size());
      for (size_t i = 0; i < x.log.size() && !failed; i++) for (size_t k = i + 1; k < x.log.size(); k++) {
        const sc::Access &a = x.log[i], &b = x.log[k];
        if (races(a, b)) {
          st.violation(std::string("sched:") + h.name + ":race", std::string("data race on process-global memory: thread ") + std::to_string(a.tid) + " (" + det::op_name(h.ops[a.tid]) + ") " + (a.write ? "writes" : "reads") + " and thread " + std::to_string(b.tid) + " (" + det::op_name(h.ops[b.tid]) + ") " + (b.write ? "writes" : "reads") + " " + std::to_string(b.size) + " bytes at .data+" + std::to_string(b.off) + " with no synchronisation; schedule " + vf::jarr_num(prefix), cj);
          failed = true; break; }
      }
      for (size_t t = 0; t < solo.size() && !failed; t++) if (x.results[t] != solo[t]) { st.violation(std::string("sched:") + h.name + ":result", std::string("thread ") + std::to_string(t) + " (" + det::op_name(h.ops[t]) + ") produced a different result than when run alone; schedule " + vf::jarr_num(prefix), cj); failed = true; }
      if (failed) return;
      uint64_t oh = 0; for (auto r : x.results) oh = vf::mix(oh ^ r); for (auto &p : x.points) oh = vf::mix(oh * 31 + p.next + 1); outcomes.insert(oh);
      last.clear(); for (auto &p : x.points) last.push_back(p.chosen);
    };
    // ---- (1) partial-order reduced exploration, complete: one execution per Mazurkiewicz trace of the global accesses
    long dpor_execs = 0; bool dpor_complete = false;
    {
      struct Frame { unsigned enabled; int from; int next; std::set<int> backtrack, done; };
      std::vector<Frame> frames; std::vector<int> prefix;
      auto choice_of = [](const Frame &f, int thread) { int idx = 0; bool fe = f.from >= 0 && (f.enabled >> f.from & 1); if (fe) { if (thread == f.from) return 0; idx = 1; } for (int t = 0; t < sc::MAXT; t++) { if (t == f.from || !(f.enabled >> t & 1)) continue; if (t == thread) return idx; idx++; } return -1; };
      for (;;) {
        if (dpor_execs >= cap) { capped = true; break; }
        Exec x = run_one(h, prefix); dpor_execs++; execs++; check(x, prefix); if (failed) break;
        // frames for the new suffix
        for (size_t k = frames.size(); k < x.points.size(); k++) { Frame f; f.enabled = x.points[k].enabled_mask; f.from = x.points[k].from; f.next = x.points[k].next; f.backtrack = {f.next}; f.done = {f.next}; frames.push_back(f); }
        frames.resize(x.points.size());
        // transitions: thread chosen at point k performs its pending access
        std::vector<int> pend(sc::MAXT, -1), tacc(x.points.size(), -1);
        for (size_t k = 0; k < x.points.size(); k++) { if (x.points[k].from >= 0) pend[x.points[k].from] = x.points[k].acc; tacc[k] = pend[x.points[k].next]; pend[x.points[k].next] = -1; }
        auto dep = [&](int a, int b) { if (a < 0 || b < 0) return false; const sc::Access &p = x.log[a], &q = x.log[b]; return (p.write || q.write) && p.off < q.off + q.size && q.off < p.off + p.size; };
        for (size_t j = 0; j < x.points.size(); j++) for (size_t i = j; i-- > 0;) {
          if (x.points[i].next == x.points[j].next) continue;
          if (!dep(tacc[i], tacc[j])) continue;
          int tj = x.points[j].next;
          if (frames[i].enabled >> tj & 1) frames[i].backtrack.insert(tj); else for (int t = 0; t < sc::MAXT; t++) if (frames[i].enabled >> t & 1) frames[i].backtrack.insert(t);
          break;
        }
        // deepest frame with an unexplored backtrack choice
        int k = (int)frames.size() - 1, q = -1;
        for (; k >= 0; k--) { for (int t : frames[k].backtrack) if (!frames[k].done.count(t)) { q = t; break; } if (q >= 0) break; }
        if (x.syncops) { dpor_complete = false; st.add("partial_order_reduction_not_claimed(locks/atomics present)"); break; }
        if (q < 0) { dpor_complete = true; break; }
        frames[k].done.insert(q);
        prefix.clear(); for (int i = 0; i < k; i++) prefix.push_back(choice_of(frames[i], frames[i].next));
        prefix.push_back(choice_of(frames[k], q)); frames[k].next = q; frames.resize(k + 1);
      }
    }
    // ---- (2) plain preemption-bounded exploration (no independence assumption), bound iterated 0,1,2(,3)
    int bound_done = -1; long bounded_execs = 0;
    for (int bound = 0; bound <= maxbound && !failed && !capped; bound++) {
      long execs_this = 0;
      std::function<void(const std::vector<int> &)> explore = [&](const std::vector<int> &prefix) {
        if (failed || capped) return;
        if (execs_this >= cap) { capped = true; return; }
        Exec x = run_one(h, prefix); execs++; execs_this++; bounded_execs++;
        check(x, prefix); if (failed) return;
        std::vector<int> choices; for (auto &p : x.points) choices.push_back(p.chosen);
        for (size_t i = prefix.size(); i < x.points.size(); i++) {
          int cost = 0; for (size_t k = 0; k < i; k++) if (x.points[k].cur_enabled && choices[k] != 0) cost++;
          if (x.points[i].cur_enabled) cost++;
          if (cost > bound) continue;
          for (int alt = 1; alt < x.points[i].nen; alt++) { std::vector<int> np(choices.begin(), choices.begin() + i); np.push_back(alt); explore(np); }
        }
      };
      explore({});
      if (!failed && !capped) bound_done = bound;
      st.add(std::string("executions[") + h.name + ",bound " + std::to_string(bound) + "]", execs_this);
    }
    st.add(std::string("executions[") + h.name + ",partial-order reduced]", dpor_execs);
    if (!failed && !last.empty()) { Exec a = run_one(h, last), b = run_one(h, last); if (!a.ok || !b.ok || a.results != b.results || a.points.size() != b.points.size() || a.log.size() != b.log.size()) { fprintf(stderr, "ERROR: a recorded schedule does not replay identically\n"); return 2; } st.add("replays_validated", 2); }
    st.add("cases", execs); st.add("schedules", execs); st.add("states", (long long)(execs * (long)maxpoints)); st.add("transitions", (long long)(execs * (long)maxpoints)); st.add("traces_validated", execs);
    st.max("scheduling_points", (long long)maxpoints); st.max("global_accesses", (long long)maxlog); st.max("preemption_bound_completed", bound_done);
    for (auto o : outcomes) st.outcomes.insert(o); for (long e = 0; e < std::min<long>(execs, 100000); e++) st.nontrivial.insert(vf::mix(hi * 1000003 + e));
    st.sample("{\"harness\":" + vf::jstr(h.name) + ",\"schedules\":" + std::to_string(execs) + ",\"scheduling_points\":" + std::to_string(maxpoints) + ",\"partial_order_reduced_complete\":" + (dpor_complete ? "true" : "false") + ",\"preemption_bound_completed\":" + std::to_string(bound_done) + ",\"distinct_interleavings_observed\":" + std::to_string(outcomes.size()) + ",\"last_schedule\":" + vf::jarr_num(last) + "}", 8);
    if (capped) st.capped = true;
    if (bound_done == maxbound && !failed) done.push_back(h.name);
    fprintf(stderr, "[sched] %s: %ld executions (por %ld, bounded %ld), points %zu, outcomes %zu, %.1fs\n", h.name, execs, dpor_execs, bounded_execs, maxpoints, outcomes.size(), vf::now_s() - t0);
    if (failed) break;
  }
  std::map<std::string, std::string> extra; extra["levels_completed"] = vf::jarr_str(done); extra["levels_planned"] = vf::jarr_str(planned); extra["wall_s"] = std::to_string(vf::now_s() - t0);
  std::string js = vf::stats_json(st, extra);
  if (!args.out.empty()) { FILE *f = fopen(args.out.c_str(), "w"); fputs(js.c_str(), f); fclose(f); } else puts(js.c_str());
  return st.nviol ? 1 : 0;
}
