// Engine "prog": properties C01 C03 C07 C08 C16 C19 C20 — bounded-exhaustive enumeration of programs (families F-A..F-L),
// each pushed through the real compiler + VM and compared with the reference front end / interpreter.
#include "driver_main.hpp"
#include "gen_layout.hpp"
#include "gen_prog.hpp"
#include "oracles_prog.hpp"

using real::Files;

struct Case {
  Files files; std::string main;
  std::string json() const { return real::case_json(files, main); }
  uint64_t hash() const { uint64_t h = vf::fnv(main); for (auto &p : files) { h = vf::fnv(p.first, h); h = vf::fnv(p.second, h); } return h; }
  std::string key() const { orc::An a(files, main); return a.key(); }
  static Case from(const vf::J &j) { return {j["files"].strmap(), j["main"].s}; }
};
typedef std::function<void(const Case &)> CB;
typedef drv::Level<Case> Level;

static Case single(const std::string &src) { return {{{"main", src}}, "main"}; }

// ---- families --------------------------------------------------------------------------------------------------------
static Level fam_FA(int maxnodes, int depth, bool rich, bool flat = false) {
  return {std::string("F-A") + (rich ? "" : "r") + (flat ? "-flat" : "") + "<=" + std::to_string(maxnodes), [=](const CB &cb) {
            gen::enum_FA(maxnodes, depth, rich, [&](const gen::Seq &s) { cb(single(flat ? gen::print_flat(s) : gen::print_fl(s))); }); }};
}
static Level fam_FB(int maxnodes, int depth, bool flat = false) {
  return {std::string("F-B") + (flat ? "-flat" : "") + "<=" + std::to_string(maxnodes), [=](const CB &cb) { gen::enum_FB(maxnodes, depth, [&](const gen::Seq &s) { cb(single(flat ? gen::print_flat(s) : gen::print_fl(s))); }); }};
}
// sources with a jump to a label that is not defined in the routine (alone, and with the label defined inside a PROGRAM only)
static Level fam_FB_undefined(int maxnodes) {
  return {"F-B with an undefined label<=" + std::to_string(maxnodes), [=](const CB &cb) {
            gen::enum_FB_undefined(maxnodes, 2, [&](const gen::Seq &s) { std::string m = gen::print_fl(s); cb(single(m)); cb(single("PROGRAM f DO\n  la: lb: x0 := 1\nEND\n" + m)); }); }};
}
// F-C: definitions x main; mode 0 = one file, 1 = definitions in an included file, 2 = both variants
static Level fam_FC(int maxdefs, std::vector<int> shapes, int mainnodes, bool rich, bool wrong_arity, int filemode, const std::string &tag) {
  return {"F-C" + tag, [=](const CB &cb) {
            gen::enum_defs(maxdefs, shapes, [&](const std::vector<gen::DefInst> &defs) {
              std::vector<std::string> dl; for (auto &d : defs) for (auto &l : gen::print_def(d)) dl.push_back(l);
              gen::Alphabet A = gen::alphabet_FC(defs, wrong_arity, rich);
              for (int n = 1; n <= mainnodes; n++) {
                gen::Seq cur;
                gen::enum_seq(A, n, 1, cur, [&](const gen::Seq &s) {
                  std::vector<std::string> ml; gen::print_lines(s, ml);
                  if (filemode != 1) { std::vector<std::string> all = dl; all.insert(all.end(), ml.begin(), ml.end()); cb(single(gen::join_lines(all))); }
                  if (filemode != 0 && !defs.empty()) {
                    Case c; c.main = "main"; c.files["lib"] = gen::join_lines(dl); c.files["main"] = "INCLUDE \"lib\"\n" + gen::join_lines(ml); cb(c);
                    // same, padded so that the first statement of main stands on the line number of the library's last line
                    if (dl.size() >= 3) { Case d = c; d.files["main"] = "INCLUDE \"lib\"\n" + std::string(dl.size() - 2, '\n') + gen::join_lines(ml); cb(d); }
                  }
                });
              }
            }); }};
}
// F-C in dense layouts: several nodes share a line - (a) the whole source on one line, (b) every definition header on the
// END line of the definition before it and the first main statement on the last END line, (c) every definition on one line
static Level fam_FC_dense(int maxdefs, std::vector<int> shapes, int mainnodes, const std::string &tag) {
  return {"F-C-dense" + tag, [=](const CB &cb) {
            auto strip = [](const std::string &l) { size_t p = l.find_first_not_of(' '); return p == std::string::npos ? std::string() : l.substr(p); };
            gen::enum_defs(maxdefs, shapes, [&](const std::vector<gen::DefInst> &defs) {
              if (defs.empty()) return;
              std::vector<std::vector<std::string>> dls; for (auto &d : defs) dls.push_back(gen::print_def(d));
              gen::Alphabet A = gen::alphabet_FC(defs, false, false);
              for (int n = 1; n <= mainnodes; n++) {
                gen::Seq cur;
                gen::enum_seq(A, n, 1, cur, [&](const gen::Seq &s) {
                  std::vector<std::string> ml; gen::print_lines(s, ml);
                  std::string a, b, c2;
                  for (auto &dl : dls) for (auto &l : dl) a += strip(l) + " ";
                  for (auto &l : ml) a += strip(l) + " ";
                  for (size_t i = 0; i < dls.size(); i++) { for (size_t k = 0; k < dls[i].size(); k++) b += dls[i][k] + (k + 1 < dls[i].size() ? "\n" : " "); }
                  b += gen::join_lines(ml);
                  for (auto &dl : dls) { for (auto &l : dl) c2 += strip(l) + " "; c2 += "\n"; }
                  c2 += gen::join_lines(ml);
                  cb(single(a + "\n")); cb(single(b)); cb(single(c2));
                });
              }
            }); }};
}
static std::vector<int> all_shapes() { std::vector<int> v; for (size_t i = 0; i < gen::def_pool().size(); i++) v.push_back((int)i); return v; }

// unusual declarations (C03): repeated parameter names, OUT = parameter, OUT never mentioned, no parameters, no body
// variables, redefinition, callee with more registers than the caller
static Level fam_unusual() {
  return {"unusual-declarations", [=](const CB &cb) {
            std::vector<std::string> names = {"a", "b"};
            for (int np = 0; np <= 3; np++) {
              std::vector<int> ix(np, 0);
              for (;;) {
                std::string params; for (int i = 0; i < np; i++) params += (i ? ", " : "") + names[ix[i]];
                for (std::string out : {"", "a", "b", "y", "x0"}) {
                  if (np == 0 && !out.empty()) continue;
                  for (std::string body : {"x0 := 1", "a := a + 1", "b := a; c := b; d := c; e := d", "x0 := a; a := b", "STOP"}) {
                    std::string hdr = "PROGRAM f" + (np ? " IN " + params : std::string()) + (out.empty() ? "" : " OUT " + out) + " DO " + body + " END\n";
                    std::string args; for (int i = 0; i < np; i++) args += (i ? ", " : "") + std::string(i % 2 ? "x1" : "3");
                    for (std::string use : {"x1 := 4; x0 := RUN f WITH " + args + (np ? " " : "") + "END", "x0 := RUN f WITH " + args + (np ? " " : "") + "END; x1 := RUN f WITH " + args + (np ? " " : "") + "END"}) {
                      cb(single(hdr + use + "\n"));
                      cb(single(hdr + "PROGRAM f IN q DO x0 := q END\n" + "x0 := RUN f WITH 2 END\n"));  // redefinition
                      cb(single(hdr + "PROGRAM g DO x0 := RUN f WITH " + args + (np ? " " : "") + "END END\nx0 := RUN g WITH END\n"));
                    }
                  }
                }
                int i = 0; while (i < np && ++ix[i] == (int)names.size()) ix[i++] = 0;
                if (i == np) break;
              }
            } }};
}

// C16: every call shape over <=3 definitions named from {f,g}; each definition returns a distinct constant; bodies call any
// subset of {f,g,h}; one file or split over an included file
static Level fam_callshapes(int ndefs_max) {
  return {"call-shapes<=" + std::to_string(ndefs_max) + "(0/1 parameters)", [=](const CB &cb) {
            std::vector<std::string> names = {"f", "g"}, callees = {"f", "g", "h"};
            for (int nd = 1; nd <= ndefs_max; nd++) {
              int per = 2 * 8 * 2, combos = 1; for (int i = 0; i < nd; i++) combos *= per;  // name x subset of callees x arity
              for (int code = 0; code < combos; code++) {
                int c = code; std::vector<std::string> defs; std::map<std::string, int> arity;
                // arities are per name and fixed by the first definition of that name in this shape, so that every call
                // passes the right number of arguments and acceptance depends on definition order only
                std::vector<int> nm(nd), sub(nd), ar(nd);
                for (int i = 0; i < nd; i++) { nm[i] = c % 2; c /= 2; sub[i] = c % 8; c /= 8; ar[i] = c % 2; c /= 2; }
                bool canonical = true;
                for (int i = 0; i < nd; i++) { std::string n = names[nm[i]]; if (arity.count(n)) { if (ar[i] != arity[n]) canonical = false; } else arity[n] = ar[i]; }
                if (!canonical) continue;
                if (!arity.count("f")) arity["f"] = 0; if (!arity.count("g")) arity["g"] = 0; arity["h"] = 0;
                auto call = [&](const std::string &callee, const std::string &arg) { return "RUN " + callee + " WITH " + (arity[callee] ? arg + " " : std::string()) + "END"; };
                for (int i = 0; i < nd; i++) {
                  std::string n = names[nm[i]];
                  std::string d = "PROGRAM " + n + (ar[i] ? " IN p" : "") + " DO\n  x0 := " + std::to_string(10 * (i + 1)) + ";\n";
                  for (int k = 0; k < 3; k++) if (sub[i] & (1 << k)) d += "  y" + std::to_string(k) + " := " + call(callees[k], ar[i] ? "p" : "3") + ";\n  x0 := x0 + 1;\n";
                  d += "  x0 := x0 + 0\nEND\n"; defs.push_back(d);
                }
                for (std::string mainc : {"f", "g"}) {
                  std::string all; for (auto &d : defs) all += d;
                  std::string m = "x1 := " + call(mainc, "5") + "\n";
                  cb(single(all + m));
                  if (nd >= 2) { Case cs; cs.main = "main"; cs.files["lib"] = defs[0]; std::string rest; for (int i = 1; i < nd; i++) rest += defs[i]; cs.files["main"] = "INCLUDE \"lib\"\n" + rest + m; cb(cs); }
                }
              }
            } }};
}
// LOOP-only programs that assign to the bound inside the body
static Level fam_loopbound() {
  return {"loop-bound-assigned", [=](const CB &cb) {
            for (std::string init : {"0", "1", "3"}) for (std::string b1 : {"x0 := 0", "x0 := x0 + 2", "x0 := x0 - 1", "x1 := x1 + 1", "x0 := 7"}) for (std::string b2 : {"x1 := x1 + 1", "x0 := x1", "x2 := x2 + 2"})
              for (int nest = 0; nest < 2; nest++) {
                std::string body = "  " + b1 + ";\n  " + b2 + "\n";
                if (nest) body = "  LOOP x0 DO\n    " + b1 + ";\n    " + b2 + "\n  END;\n  x3 := x3 + 1\n";
                cb(single("x0 := " + init + ";\nLOOP x0 DO\n" + body + "END;\nx4 := x0\n"));
              } }};
}

// C16: LOOP programs written through macros whose temporaries are loop bounds and are assigned inside the body
static Level fam_macroloops() {
  return {"macro-loops", [=](const CB &cb) {
            std::string lib = "DEFINE REPEAT <V> TIMES <P> DONE AS\n  #0 := $0;\n  LOOP #0 DO\n    $1;\n    #0 := #0 + 1\n  END\nENDDEF\nDEFINE COUNTDOWN <ID> <P> DONE AS\n  LOOP $0 DO\n    $1;\n    $0 := $0 - 1\n  END\nENDDEF\nDEFINE TWICE <P> DONE AS\n  #1 := 2;\n  LOOP #1 DO\n    #1 := 0;\n    $0\n  END\nENDDEF\n";
            for (std::string n : {"0", "1", "3"}) for (std::string body : {"x1 := x1 + 1", "x1 := x1 + 1;\nx0 := 0", "REPEAT 2 TIMES x2 := x2 + 1 DONE", "TWICE x2 := x2 + 3 DONE"})
              for (std::string use : {"REPEAT " + n + " TIMES\n" + body + "\nDONE", "x0 := " + n + ";\nCOUNTDOWN x0\n" + body + "\nDONE", "TWICE\n" + body + "\nDONE", "x0 := " + n + ";\nREPEAT x0 TIMES\n" + body + "\nDONE"}) {
                Case c; c.main = "main"; c.files["lib"] = lib; c.files["main"] = "INCLUDE \"lib\"\n" + use + ";\nx3 := x1\n"; cb(c);
              } }};
}

// "semantic ladder": deterministic one-parameter families that grow one dimension at a time (number of variables and
// leaked temporaries, loop nesting, call depth, parameters, labels, included files, nested arguments, macro nesting);
// every rung n = 1..N is run, all in one-statement-per-line layout
static Level fam_semladder(int N) {
  return {"semantic ladder n=1.." + std::to_string(N), [=](const CB &cb) {
            auto S = [](int i) { return std::to_string(i); };
            std::string add = "PROGRAM add IN a, b OUT r DO\n  r := a;\n  LOOP b DO\n    r := r + 1\n  END\nEND\n";
            std::vector<int> rungs; for (int n = 1; n <= N; n++) rungs.push_back(n);
            for (int big : {48, 64, 96, 128, 160}) if (big > N) rungs.push_back(big);  // the width family alone also at sizes that cross 128 / 256 / 384 registers
            for (int n : rungs) {
              bool wide_only = n > N;
              { std::string m = add; for (int i = 1; i <= n; i++) m += "v" + S(i) + " := " + (i == 1 ? std::string("1") : "v" + S(i - 1) + " + 1") + ";\n";
                m += "w := RUN add WITH RUN add WITH v" + S(n) + ", 1 END, v1 END;\nu := RUN add WITH w, v" + S(n) + " END;\nt := u - 1\n"; cb(single(m)); }
              if (wide_only) { // the same width inside a called program
                std::string m = "PROGRAM wide IN a OUT r DO\n  v0 := a"; for (int i = 1; i <= n; i++) m += ";\n  v" + S(i) + " := v" + S(i - 1) + " + 1"; m += ";\n  r := v" + S(n) + "\nEND\nq := RUN wide WITH 2 END\n"; cb(single(m)); continue; }
              if (n <= 8) { std::string m = "c := 2;\n"; for (int i = 0; i < n; i++) m += std::string(2 * i, ' ') + "LOOP c DO\n"; m += std::string(2 * n, ' ') + "s := s + 1\n"; for (int i = n; i-- > 0;) m += std::string(2 * i, ' ') + "END" + (i ? "\n" : ";\n"); m += "r := s\n"; cb(single(m)); }
              { std::string m = "PROGRAM f0 IN a DO\n  x0 := a\nEND\n"; for (int i = 1; i <= n; i++) m += "PROGRAM f" + S(i) + " IN a DO\n  x0 := RUN f" + S(i - 1) + " WITH a END;\n  x0 := x0 + 1\nEND\n"; m += "r := RUN f" + S(n) + " WITH 3 END\n"; cb(single(m)); }
              if (n <= 16) { std::string h = "PROGRAM g IN a1"; for (int i = 2; i <= n; i++) h += ", a" + S(i); h += " OUT r DO\n  r := a1"; for (int i = 2; i <= n; i++) h += ";\n  LOOP a" + S(i) + " DO\n    r := r + 1\n  END"; h += "\nEND\n"; std::string c = "r := RUN g WITH 1"; for (int i = 2; i <= n; i++) c += ", " + S(i % 3); cb(single(h + c + " END\n")); }
              { std::string m = "GOTO l1;\n"; for (int i = n; i >= 1; i--) m += "l" + S(i) + ": y := y + 1;\nGOTO " + (i == n ? std::string("fin") : "l" + S(i + 1)) + ";\n"; m += "fin: z := y\n"; cb(single(m)); }
              { Case c; c.main = "main"; c.files["p0"] = "PROGRAM q0 IN a DO\n  x0 := a + 2\nEND\n"; for (int i = 1; i <= n; i++) c.files["p" + S(i)] = "INCLUDE \"p" + S(i - 1) + "\"\nPROGRAM q" + S(i) + " IN a DO\n  x0 := RUN q" + S(i - 1) + " WITH a END\nEND\n"; c.files["main"] = "INCLUDE \"p" + S(n) + "\"\nr := RUN q" + S(n) + " WITH 1 END\n"; cb(c); }
              { std::string e = "x1"; for (int i = 0; i < n; i++) e = "RUN inc WITH " + e + " END"; cb(single("PROGRAM inc IN a DO\n  x0 := a + 1\nEND\nx1 := 4;\nr := " + e + "\n")); }
              if (n <= 5) { std::string lib = "DEFINE IF <V> THEN <P> ELSE <P> END AS\n  #0 := 0;\n  #1 := 1;\n  #2 := $0;\n  LOOP #2 DO\n    #0 := 1;\n    #1 := 0\n  END;\n  LOOP #0 DO $1 END;\n  LOOP #1 DO $2 END\nENDDEF\n";
                std::string e = "r := r + 1"; for (int i = 0; i < n; i++) e = "IF " + std::string(i % 2 ? "x0" : "x1") + " THEN " + e + " ELSE r := r + " + S(i + 2) + " END"; Case c; c.main = "main"; c.files["lib"] = lib; c.files["main"] = "INCLUDE \"lib\"\nx1 := 1;\n" + e + "\n"; cb(c); }
            } }};
}

// C20: values near 2^31
static Level fam_bigvalues(int maxnodes) {
  return {"big-values<=" + std::to_string(maxnodes), [=](const CB &cb) {
            gen::Alphabet A; A.loopvars = {"x1"};
            std::vector<std::string> consts = {"0", "1", "1073741824", "2147483645", "2147483646"};
            for (auto t : {"x0", "x1"}) {
              for (auto &c : consts) { gen::GS g; g.text = std::string(t) + " := " + c; A.atoms.push_back(g); }
              for (auto &c : consts) for (auto op : {" + ", " - "}) { if (c == "0") continue; gen::GS g; g.text = std::string(t) + " := x0" + op + c; A.atoms.push_back(g); }
              gen::GS g; g.text = std::string(t) + " := x1"; A.atoms.push_back(g);
            }
            for (int n = 1; n <= maxnodes; n++) { gen::Seq cur; gen::enum_seq(A, n, 1, cur, [&](const gen::Seq &s) { cb(single(gen::print_fl(s))); }); }
            // doubling by a callee
            for (int k : {29, 30, 31, 32, 33}) cb(single("PROGRAM dbl IN a DO\n  x0 := a;\n  LOOP a DO\n    x0 := x0 + 1\n  END\nEND\nx0 := 2;\nx1 := " + std::to_string(k) + ";\nLOOP x1 DO\n  x0 := x0 + 1073741823\nEND\n"));
          }};
}
// C20: large values travelling through calls (ARG / RET copies, callee-side additions) and tests against large constants
static Level fam_bigcalls(int maxnodes) {
  return {"big-values through calls<=" + std::to_string(maxnodes), [=](const CB &cb) {
            std::string lib =
                "PROGRAM idf IN a DO\n  x0 := a\nEND\n"
                "PROGRAM addbig IN a DO\n  x0 := a + 2147483646\nEND\n"
                "PROGRAM subbig IN a DO\n  x0 := a - 2147483646\nEND\n"
                "PROGRAM sum IN a, b DO\n  x0 := a;\n  LOOP b DO\n    x0 := x0 + 1073741823\n  END\nEND\n"
                "PROGRAM cmp IN a DO\n  x0 := a + 1073741824;\n  IF a = 2147483646 THEN GOTO big;\n  GOTO fin;\n  big: x0 := 2147483646;\n  fin: x0 := x0 + 0\nEND\n";
            gen::Alphabet A; A.loopvars = {"x1"};
            std::vector<std::string> consts = {"1", "3", "1073741824", "2147483646"};
            for (auto t : {"x0", "x1"}) {
              for (auto &c : consts) { gen::GS g; g.text = std::string(t) + " := " + c; A.atoms.push_back(g); }
              for (auto c : {"1", "2147483646"}) for (auto op : {" + ", " - "}) { gen::GS g; g.text = std::string(t) + " := x0" + op + c; A.atoms.push_back(g); }
              for (auto f : {"idf", "addbig", "subbig", "cmp"}) for (auto a : {"x0", "2147483646"}) { gen::GS g; g.text = std::string(t) + " := RUN " + f + " WITH " + a + " END"; A.atoms.push_back(g); }
              for (auto b : {"x1", "3"}) { gen::GS g; g.text = std::string(t) + " := RUN sum WITH x0, " + b + " END"; A.atoms.push_back(g); }
            }
            for (int n = 1; n <= maxnodes; n++) { gen::Seq cur; gen::enum_seq(A, n, 1, cur, [&](const gen::Seq &s) { cb(single(lib + gen::print_fl(s))); }); }
          }};
}
static Level fam_literals() {
  return {"literal-forms (incl. digit-length ladder 1..40)", [=](const CB &cb) {
            std::vector<std::string> lits; for (int n = 1; n <= 40; n++) { lits.push_back(std::string(n, '9')); lits.push_back("1" + std::string(n - 1, '0')); }
            for (std::string extra : {"2147483644", "2147483645", "2147483646", "2147483647", "2147483648", "2147483649", "4294967295", "4294967296", "4294967297",
                                             "9223372036854775807", "9223372036854775808", "100000000000000000000", "10000000000000000000000000000000000000000", "0", "7"}) lits.push_back(extra);
            for (auto &l : lits) {
              cb(single("x0 := " + l + "\n"));
              cb(single("x0 := x0 + " + l + "\n"));
              cb(single("x0 := 5;\nx0 := x0 - " + l + "\n"));
              cb(single("la: x0 := 1;\nIF x0 = " + l + " THEN GOTO la\n"));
              cb(single("PROGRAM f IN a DO x0 := a END\nx0 := RUN f WITH " + l + " END\n"));
              cb(single("DEFINE PRIO " + l + " foo AS x1 := 1 END DEFINE\nfoo\n"));
              cb(single("DEFINE foo <V> AS x1 := $" + l + " END DEFINE\nfoo 3\n"));
            } }};
}

static Level fam_FD(int ncorpus, int maxinc, int maxgaps) {
  return {"F-D(" + std::to_string(ncorpus) + " programs,<=" + std::to_string(maxinc) + " includes)", [=](const CB &cb) {
            gen::enum_FD(ncorpus, maxinc, maxgaps, [&](const Files &f, const std::string &m) { Case c; c.files = f; c.main = m; cb(c); }); }};
}

int main(int argc, char **argv) {
  drv::Args args = drv::Args::parse(argc, argv);
  bool T = args.thorough(); const std::string &P = args.prop;
  std::vector<Level> L; std::function<void(orc::An &, vf::Stats &)> o;
  std::vector<int> shapesQ = {0, 1, 2, 4, 6, 7, 11, 15}, shapesAll = all_shapes(), shapesR = {1, 4, 8, 11, 12};
  if (P == "C01") {
    o = orc::oracle_C01;
    L = {fam_FA(3, 2, true), fam_semladder(T ? 40 : 24), fam_FB(3, 2), fam_FC(2, shapesQ, 1, false, false, 0, "(<=2 defs of 8 shapes, main 1 node)"), fam_FC(1, shapesAll, 2, true, false, 2, "(1 def of 16 shapes, main<=2 nodes, rich args, both file layouts)"), fam_FC(2, shapesQ, 1, true, false, 0, "(<=2 defs of 8 shapes, main 1 node, rich args incl. nested calls)"), fam_FD(7, 1, 6), fam_FA(3, 2, true, true), fam_FC(3, shapesR, 1, false, false, 0, "(<=3 defs of 5 shapes incl. redefinition with another layout, main 1 node)"), fam_FC_dense(2, shapesQ, 1, "(<=2 defs of 8 shapes, main 1 node, 3 dense layouts)"), fam_FB(3, 2, true), fam_FA(4, 2, true), fam_FA(4, 2, true, true)};
    if (T) { L.push_back(fam_FB(4, 2)); L.push_back(fam_FC(2, shapesAll, 2, false, false, 0, "(<=2 defs of 16 shapes, main<=2 nodes)")); L.push_back(fam_FD(11, 2, 8)); L.push_back(fam_FC(3, shapesQ, 1, false, false, 0, "(<=3 defs of 8 shapes, main 1 node)")); L.push_back(fam_FA(5, 2, false)); L.push_back(fam_FA(5, 2, false, true)); }
  } else if (P == "C03") {
    o = orc::oracle_C03;
    L = {fam_unusual(), fam_semladder(T ? 40 : 24), fam_FB_undefined(T ? 3 : 2), fam_FA(3, 2, true), fam_FB(3, 2), fam_FC(2, shapesQ, 1, false, false, 0, "(<=2 defs of 8 shapes, main 1 node)"), fam_FC(1, shapesAll, 2, true, false, 2, "(1 def of 16 shapes, main<=2 nodes, rich args, both file layouts)"), fam_FC(2, shapesQ, 1, true, false, 0, "(<=2 defs of 8 shapes, main 1 node, rich args incl. nested calls)"), fam_FC(3, shapesR, 1, false, false, 0, "(<=3 defs of 5 shapes incl. redefinition with another layout, main 1 node)"), fam_FD(7, 1, 6), fam_FC_dense(2, shapesQ, 1, "(<=2 defs of 8 shapes, main 1 node, 3 dense layouts)"), fam_FB(3, 2, true)};
    if (T) { L.push_back(fam_FA(4, 2, true)); L.push_back(fam_FB(4, 2)); L.push_back(fam_FC(2, shapesAll, 2, false, false, 0, "(<=2 defs of 16 shapes, main<=2 nodes)")); L.push_back(fam_FC(3, shapesQ, 1, false, false, 0, "(<=3 defs of 8 shapes, main 1 node)")); L.push_back(fam_FD(11, 2, 8)); }
  } else if (P == "C07") {
    o = [](orc::An &a, vf::Stats &st) { orc::oracle_C07(a, st); };
    L = {fam_FA(3, 2, true), fam_semladder(T ? 40 : 24), fam_FC(3, shapesR, 1, false, false, 2, "(<=3 defs of 5 shapes incl. redefinition with another layout, main 1 node, both file layouts)"), fam_FB(3, 2), fam_FC(2, shapesQ, 1, false, false, 2, "(<=2 defs of 8 shapes, main 1 node, both file layouts)"), fam_FC(1, shapesAll, 2, true, false, 2, "(1 def of 16 shapes, main<=2 nodes, rich args, both file layouts)"), fam_FC(2, shapesQ, 1, true, false, 0, "(<=2 defs of 8 shapes, main 1 node, rich args incl. nested calls)"), fam_FA(4, 2, true)};
    if (T) { L.push_back(fam_FB(4, 2)); L.push_back(fam_FC(2, shapesAll, 2, false, false, 2, "(<=2 defs of 16 shapes, main<=2 nodes, both file layouts)")); L.push_back(fam_FC(3, shapesQ, 1, false, false, 2, "(<=3 defs of 8 shapes, main 1 node, both file layouts)")); L.push_back(fam_FA(5, 2, false)); }
  } else if (P == "C08") {
    o = orc::oracle_C08;
    L = {fam_FD(11, 1, 8), fam_semladder(T ? 40 : 24), fam_FA(3, 2, true), fam_FB(3, 2), fam_FC(2, shapesQ, 1, false, false, 2, "(<=2 defs of 8 shapes, main 1 node, both file layouts)"), fam_FA(3, 2, true, true), fam_FC_dense(2, shapesQ, 1, "(<=2 defs of 8 shapes, main 1 node, 3 dense layouts)"), fam_FB(3, 2, true)};
    if (T) { L.push_back(fam_FD(11, 2, 10)); L.push_back(fam_FA(4, 2, true)); L.push_back(fam_FB(4, 2)); L.push_back(fam_FC(2, shapesAll, 2, false, false, 2, "(<=2 defs of 16 shapes, main<=2 nodes, both file layouts)")); }
  } else if (P == "C16") {
    o = orc::oracle_C16;
    L = {fam_callshapes(2), fam_loopbound(), fam_macroloops(), fam_FA(3, 2, true), fam_FC(2, shapesQ, 1, false, false, 2, "(<=2 defs of 8 shapes, main 1 node, both file layouts)"), fam_FC_dense(2, shapesQ, 1, "(<=2 defs of 8 shapes, main 1 node, 3 dense layouts)"), fam_callshapes(3)};
    if (T) { L.push_back(fam_FA(4, 2, true)); L.push_back(fam_FC(3, shapesQ, 1, false, false, 0, "(<=3 defs of 8 shapes, main 1 node)")); L.push_back(fam_FC(2, shapesAll, 2, false, false, 2, "(<=2 defs of 16 shapes, main<=2 nodes, both file layouts)")); }
  } else if (P == "C19") {
    o = orc::oracle_C19;
    L = {fam_FC(2, shapesQ, 1, false, false, 0, "(<=2 defs of 8 shapes, main 1 node)"), fam_semladder(T ? 40 : 24), fam_FC(1, shapesAll, 2, true, false, 0, "(1 def of 16 shapes, main<=2 nodes, rich args)"), fam_callshapes(2), fam_unusual(), fam_FD(3, 0, 9), fam_FA(3, 2, true), fam_FC_dense(2, shapesQ, 1, "(<=2 defs of 8 shapes, main 1 node, 3 dense layouts)")};
    if (T) { L.push_back(fam_FC(2, shapesAll, 2, false, false, 0, "(<=2 defs of 16 shapes, main<=2 nodes)")); L.push_back(fam_FC(3, shapesQ, 1, false, false, 0, "(<=3 defs of 8 shapes, main 1 node)")); L.push_back(fam_callshapes(3)); L.push_back(fam_FD(11, 1, 8)); }
  } else if (P == "C20") {
    o = orc::oracle_C20;
    L = {fam_literals(), fam_bigvalues(2), fam_bigcalls(2), fam_FA(3, 2, true), fam_bigvalues(3)};
    if (T) { L.push_back(fam_bigcalls(3)); }
  } else { fprintf(stderr, "ERROR: unknown property %s\n", P.c_str()); return 2; }
  return drv::run<Case>(args, L, [&](const Case &c, vf::Stats &st) { orc::An a(c.files, c.main); o(a, st); });
}
