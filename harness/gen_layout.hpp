// F-D: layouts of a fixed corpus (statement-level gaps space/newline, token intervals moved into included files).
#pragma once
#include <functional>
#include <map>
#include <string>
#include <vector>

#include "ref_lex.hpp"

namespace gen {
typedef std::map<std::string, std::string> Files;
// F-D: every layout of a corpus program: each statement-level gap is a space or a newline; up to `maxinc` disjoint token
// intervals are moved into included files spliced in place
inline std::vector<std::pair<std::string, Files>> corpus_FD() {
  std::string lib = "DEFINE NOP AS _ := 0 END DEFINE DEFINE IF <V> THEN <P> ELSE <P> END AS #0 := 0; #1 := 1; #2 := $0; LOOP #2 DO #0 := 1; #1 := 0 END; LOOP #0 DO $1 END; LOOP #1 DO $2 END END DEFINE";
  return {
      {"PROGRAM add IN a , b OUT r DO r := a ; LOOP b DO r := r + 1 END END PROGRAM twice IN a OUT r DO r := RUN add WITH a , a END END x0 := 2 ; LOOP x0 DO x1 := RUN twice WITH x0 END END", {}},
      {"PROGRAM f IN a DO x0 := a END PROGRAM g IN a DO x0 := a END x1 := 1", {}},
      {"x0 := 2 ; LOOP x0 DO x1 := x1 + 1 ; x2 := x1 END ; x3 := x2", {}},
      {"la : x0 := x0 + 1 ; IF x0 = 3 THEN GOTO lb ; GOTO la ; lb : x1 := x0", {}},
      {"PROGRAM f IN a OUT r DO r := a + 1 END x0 := RUN f WITH RUN f WITH 2 END END ; WHILE x0 != 0 DO x0 := x0 - 1 END", {}},
      {"INCLUDE \"lib\" x0 := 1 ; IF x0 THEN x1 := 1 ELSE x1 := 2 END ; IF 0 THEN x2 := 1 ELSE NOP END", {{"lib", lib}}},
      // two different macros with temporaries, one used inside the other's slot
      {"INCLUDE \"lib2\" x0 := 1 ; x1 := 3 ; SAVE x1 IF x0 THEN x1 := 5 ELSE x1 := 6 END ; x2 := x1 RESTORE ; IF x2 THEN SAVE x0 x0 := 0 RESTORE ELSE x3 := 1 END ; x3 := x1", {{"lib2", "DEFINE IF <V> THEN <P> ELSE <P> END AS #0 := 0; #1 := 1; #2 := $0; LOOP #2 DO #0 := 1; #1 := 0 END; LOOP #0 DO $1 END; LOOP #1 DO $2 END ENDDEF\nDEFINE SAVE <ID> <P> RESTORE AS #0 := $0 ; $1 ; $0 := #0 ENDDEF"}}},
      {"PROGRAM f DO STOP END x0 := 1 ; x1 := RUN f WITH END ; x2 := 2", {}},
      // user macros that match the *output* of the built-in +/- sugar and move captured tokens to statement positions
      {"DEFINE PRIO 5 SET RUN <ID> WITH <A> END AS $0 := 7 ENDDEF DEFINE PRIO 4 <ID> <- <V> AS $0 := $1 ENDDEF SET x0 + 1 ; x1 <- 2 ; SET x1 - 1 ; x2 := 3", {}},
      {"PROGRAM f IN a DO LOOP a DO x0 := x0 + 2 END END PROGRAM f IN b DO x0 := RUN f WITH b END END x0 := RUN f WITH 3 END", {}},
      {"x0 := 3 ; WHILE x0 != 0 DO la : x0 := x0 - 1 ; LOOP x0 DO x1 := x1 + 1 END END", {}},
  };
}
inline void enum_FD(int ncorpus, int maxinc, int maxgaps, const std::function<void(const Files &, const std::string &)> &cb) {
  {
            auto corpus = corpus_FD();
            for (int ci = 0; ci < ncorpus && ci < (int)corpus.size(); ci++) {
              std::vector<ref::Tok> toks = ref::lex(corpus[ci].first, "x");
              int n = (int)toks.size(); std::vector<int> B;  // boundary p = gap before token p
              auto struct_tok = [](const ref::Tok &t) { return t.k == ref::PROGSEP || t.k == ref::DO || t.k == ref::END || t.k == ref::PROGRAM; };
              for (int p = 1; p < n; p++) {
                if (toks[p - 1].k == ref::INCLUDE) continue;
                if (struct_tok(toks[p - 1]) || struct_tok(toks[p])) B.push_back(p);
              }
              if ((int)B.size() > maxgaps) B.resize(maxgaps);
              int nb = (int)B.size();
              auto render = [&](int from, int to, unsigned mask, const std::vector<std::pair<int, int>> &inc, Files &files, const std::string &self) {
                std::string o; int p = from;
                while (p < to) {
                  bool moved = false;
                  for (size_t k = 0; k < inc.size(); k++) if (inc[k].first == p) {
                    std::string fn = "e" + std::to_string(k + 1); std::string sub;
                    for (int q = inc[k].first; q < inc[k].second; q++) { if (q > inc[k].first) { bool nl = false; for (int bi = 0; bi < nb; bi++) if (B[bi] == q && (mask >> bi & 1)) nl = true; sub += nl ? "\n" : " "; } sub += toks[q].text; }
                    files[fn] = sub;
                    if (p > from) { bool nl = false; for (int bi = 0; bi < nb; bi++) if (B[bi] == p && (mask >> bi & 1)) nl = true; o += nl ? "\n" : " "; }
                    o += "INCLUDE \"" + fn + "\""; p = inc[k].second; moved = true; break;
                  }
                  if (moved) continue;
                  if (p > from) { bool nl = false; for (int bi = 0; bi < nb; bi++) if (B[bi] == p && (mask >> bi & 1)) nl = true; o += nl ? "\n" : " "; }
                  o += toks[p].text; p++;
                }
                files[self] = o;
              };
              std::vector<int> cuts = {0}; for (int b : B) cuts.push_back(b); cuts.push_back(n);
              std::vector<std::vector<std::pair<int, int>>> incsets = {{}};
              if (maxinc >= 1) for (size_t i = 0; i < cuts.size(); i++) for (size_t j = i + 1; j < cuts.size(); j++) {
                if (cuts[i] == 0 && cuts[j] == n) continue;
                bool hasinc = false; for (int q = cuts[i]; q < cuts[j]; q++) if (toks[q].k == ref::INCLUDE || (q > 0 && toks[q - 1].k == ref::INCLUDE)) hasinc = true;
                if (hasinc) continue;
                incsets.push_back({{cuts[i], cuts[j]}});
                if (maxinc >= 2) for (size_t k = j; k < cuts.size(); k++) for (size_t l = k + 1; l < cuts.size(); l++) {
                  bool h2 = false; for (int q = cuts[k]; q < cuts[l]; q++) if (toks[q].k == ref::INCLUDE || (q > 0 && toks[q - 1].k == ref::INCLUDE)) h2 = true;
                  if (!h2) incsets.push_back({{cuts[i], cuts[j]}, {cuts[k], cuts[l]}});
                }
              }
              for (auto &inc : incsets)
                for (unsigned mask = 0; mask < (1u << nb); mask++) {
                  Files files = corpus[ci].second;
                  render(0, n, mask, inc, files, "main");
                  cb(files, "main");
                }
            } }
}


}  // namespace gen
