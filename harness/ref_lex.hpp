// R-LEX / R-INC: reference tokenizer (maximal munch over the frozen rule table documented in lexer.l at the pinned
// commit) and reference include resolver. Shares no code with libtheo; token kinds use the public enum values.
#pragma once
#include <map>
#include <set>
#include <string>
#include <vector>

namespace ref {

enum K {  // numerically equal to Theo::Token::Type (public API)
  T_EOF = 0, ID = 1, NV_ID, INT, PAREN_CLOSE, PAREN_OPEN, ARGSEP, PROGSEP, LABELDEC, ASSIGN, NEQ_ZERO, EQ, DO, LOOP, WHILE,
  GOTO, IF, THEN, STOP, END, PROGRAM, IN, OUT, INCLUDE, FNAME, DEFINE, AS, PRIORITY, END_DEFINE, PROG_TEMP, VALUE_TEMP,
  ID_TEMP, INT_TEMP, ARGS_TEMP, INSERTION, TEMP_VAL, RUN, WITH, UNKNOWN
};

struct Tok {
  int k; std::string text, file; int line;
  bool operator==(const Tok &o) const { return k == o.k && text == o.text && file == o.file && line == o.line; }
};

struct Rule { int kind; /* -1 = produces nothing */ std::vector<std::string> alts; int special; };
// special: 0 = alternatives; 1 = ws; 2 = fname; 3 = $int; 4 = #int; 5 = id; 6 = int; 7 = comment; 8 = any char

inline const std::vector<std::string> &spell_program() { static std::vector<std::string> v = {"PROGRAM", "Program", "program", "PROG", "Prog", "prog"}; return v; }
inline const std::vector<std::string> &spell_value() { static std::vector<std::string> v = {"VALUE", "Value", "value", "VAL", "Val", "val"}; return v; }

inline const std::vector<Rule> &rules() {
  static std::vector<Rule> R;
  if (!R.empty()) return R;
  auto wrap = [](const std::vector<std::string> &v, std::vector<std::string> extra) {
    std::vector<std::string> r; for (auto &s : v) r.push_back("<" + s + ">"); for (auto &e : extra) r.push_back(e); return r; };
  R = {
      {-1, {}, 1},
      {PAREN_OPEN, {"("}, 0}, {PAREN_CLOSE, {")"}, 0}, {ARGSEP, {","}, 0}, {PROGSEP, {";"}, 0}, {LABELDEC, {":"}, 0},
      {ASSIGN, {":="}, 0}, {NEQ_ZERO, {"!= 0"}, 0}, {EQ, {"="}, 0},
      {RUN, {"RUN", "Run", "run"}, 0}, {WITH, {"WITH", "With", "with"}, 0}, {DO, {"DO", "do", "Do"}, 0},
      {LOOP, {"LOOP", "Loop", "loop"}, 0}, {WHILE, {"WHILE", "While", "while"}, 0}, {GOTO, {"GOTO", "Goto", "goto"}, 0},
      {IF, {"IF", "If", "if"}, 0}, {THEN, {"THEN", "Then", "then"}, 0}, {STOP, {"STOP", "Stop", "stop"}, 0},
      {END, {"END", "End", "end"}, 0}, {PROGRAM, spell_program(), 0}, {IN, {"IN", "In", "in"}, 0}, {OUT, {"OUT", "Out", "out"}, 0},
      {INCLUDE, {"INCLUDE", "Include", "include"}, 0}, {FNAME, {}, 2},
      {DEFINE, {"DEFINE", "Define", "Def", "define", "def"}, 0}, {AS, {"AS", "As", "as"}, 0},
      {PRIORITY, {"PRIORITY", "Priority", "priority", "PRIO", "Prio", "prio"}, 0},
      {END_DEFINE, {"END DEFINE", "End Define", "end define", "ENDDEF", "Enddef", "enddef"}, 0},
      {PROG_TEMP, wrap(spell_program(), {"<P>", "<p>"}), 0}, {VALUE_TEMP, wrap(spell_value(), {"<V>", "<v>"}), 0},
      {ID_TEMP, {"<ID>", "<id>"}, 0}, {INT_TEMP, {"<INT>", "<Int>", "<int>"}, 0},
      {INSERTION, {}, 3}, {TEMP_VAL, {}, 4}, {ID, {}, 5}, {INT, {}, 6},
      {ARGS_TEMP, {"<ARGS>", "<Args>", "<args>", "<A>", "<a>"}, 0},
      {-1, {}, 7}, {NV_ID, {}, 8},
  };
  return R;
}

inline bool isidstart(unsigned char c) { return (c >= 'a' && c <= 'z') || (c >= 'A' && c <= 'Z') || c == '_'; }
inline bool isidchar(unsigned char c) { return isidstart(c) || (c >= '0' && c <= '9'); }
inline size_t intlen(const std::string &s, size_t p) {
  if (p >= s.size()) return 0;
  if (s[p] == '0') return 1;
  if (s[p] >= '1' && s[p] <= '9') { size_t q = p; while (q < s.size() && s[q] >= '0' && s[q] <= '9') q++; return q - p; }
  return 0;
}
// longest match of one rule at position p (0 = no match)
inline size_t rule_match(const Rule &r, const std::string &s, size_t p) {
  switch (r.special) {
    case 0: { size_t best = 0; for (auto &a : r.alts) if (a.size() > best && s.compare(p, a.size(), a) == 0) best = a.size(); return best; }
    case 1: { size_t q = p; while (q < s.size() && (s[q] == ' ' || s[q] == '\t' || s[q] == '\n')) q++; return q - p; }
    case 2: { if (s[p] != '"') return 0; size_t q = s.find('"', p + 1); return q == std::string::npos ? 0 : q + 1 - p; }
    case 3: case 4: { if (s[p] != (r.special == 3 ? '$' : '#')) return 0; size_t n = intlen(s, p + 1); return n ? n + 1 : 0; }
    case 5: { if (!isidstart(s[p])) return 0; size_t q = p; while (q < s.size() && isidchar(s[q])) q++; return q - p; }
    case 6: return intlen(s, p);
    case 7: { if (s.compare(p, 2, "//") != 0) return 0; size_t q = p; while (q < s.size() && s[q] != '\n') q++; return q - p; }
    case 8: return 1;
  }
  return 0;
}

// One file -> tokens (no EOF token). The content is what the scanner gets to see (the caller applies the NUL policy).
inline std::vector<Tok> lex(const std::string &s, const std::string &file, int *rule_of_first = nullptr) {
  std::vector<Tok> out; size_t p = 0; int line = 1; bool first = true;
  const auto &R = rules();
  while (p < s.size()) {
    size_t best = 0; int bi = -1;
    for (size_t i = 0; i < R.size(); i++) { size_t n = rule_match(R[i], s, p); if (n > best) { best = n; bi = (int)i; } }
    for (size_t q = p; q < p + best; q++) if (s[q] == '\n') line++;
    if (first && rule_of_first) { *rule_of_first = bi; }
    first = false;
    if (R[bi].kind >= 0) out.push_back({R[bi].kind, s.substr(p, best), file, line});
    p += best;
  }
  return out;
}

struct ScanErr { int kind; std::string file; int line; std::string request; };
enum { E_MAIN_NOT_FOUND = 0, E_EXPECTED_FILENAME = 1, E_FILE_NOT_FOUND = 2, E_RECURSIVE = 3 };

struct ScanOut {
  std::vector<Tok> toks;            // including the final EOF token (file/line of the last token)
  std::vector<ScanErr> errs;
  std::set<std::string> requests;
  bool main_missing = false;
  long long exact_prefix = -1;      // number of leading tokens that are specified exactly (-1: all); set at the first
                                    // malformed include, after which the documentation leaves the next token open
};

struct IncState {
  const std::map<std::string, std::string> &files;
  ScanOut &o;
  std::vector<std::string> active;
  bool nul_truncates;
};

inline void inc_file(IncState &st, const std::string &name) {
  st.active.push_back(name);
  std::string content = st.files.at(name);
  if (st.nul_truncates) { size_t z = content.find('\0'); if (z != std::string::npos) content.resize(z); }
  std::vector<Tok> ts = lex(content, name);
  for (size_t i = 0; i < ts.size(); i++) {
    if (ts[i].k != INCLUDE) { st.o.toks.push_back(ts[i]); continue; }
    if (i + 1 >= ts.size() || ts[i + 1].k != FNAME) {
      int line = (i + 1 < ts.size()) ? ts[i + 1].line : (ts[i].line);  // implementation reports the line of what it read
      st.o.errs.push_back({E_EXPECTED_FILENAME, name, line, ""});
      // only a directive that is followed by some other token leaves something open (is that token dropped?); a
      // directive at the very end of its file does not
      if (i + 1 < ts.size() && st.o.exact_prefix < 0) st.o.exact_prefix = (long long)st.o.toks.size();
      i++;  // the following token is consumed by the directive (left open by the documentation)
      continue;
    }
    const Tok &fn = ts[++i];
    std::string target = fn.text.substr(1, fn.text.size() - 2);
    if (!st.files.count(target)) { st.o.errs.push_back({E_FILE_NOT_FOUND, name, fn.line, target}); st.o.requests.insert(target); continue; }
    bool act = false; for (auto &a : st.active) if (a == target) act = true;
    if (act) { st.o.errs.push_back({E_RECURSIVE, name, fn.line, ""}); continue; }
    inc_file(st, target);
  }
  st.active.pop_back();
}

// nul_truncates=true models the behaviour documented by F9 before the fix; after the fix a NUL byte is an ordinary
// "any other character" -> one-character operator token, which is what lex() does with the untruncated text.
inline ScanOut scan(const std::map<std::string, std::string> &files, const std::string &main, bool nul_truncates = false) {
  ScanOut o; IncState st{files, o, {}, nul_truncates};
  if (!files.count(main)) { o.main_missing = true; o.errs.push_back({E_MAIN_NOT_FOUND, "-", -1, main}); o.requests.insert(main); }
  else inc_file(st, main);
  if (o.toks.empty()) o.toks.push_back({T_EOF, "EOF", "", 0});  // location of the EOF of an empty stream is left open
  else o.toks.push_back({T_EOF, "EOF", o.toks.back().file, o.toks.back().line});
  return o;
}

}  // namespace ref
