// Engine "front": C02 (compilation is total) and C04 (the compiler accepts exactly the language).
// Bounded-exhaustive enumeration of token sequences, edits of seed programs, byte strings and file-map shapes.
#include "driver_main.hpp"
#include "oracles_prog.hpp"

#if defined(__SANITIZE_ADDRESS__)
extern "C" int __lsan_do_recoverable_leak_check();
#endif

using real::Files;

struct Case {
  Files files; std::string main; std::string tag;  // tag: "" or "ladder:<construct>:<size>" (then files are generated)
  std::string json() const { return real::case_json(files, main, tag.empty() ? "" : ",\"tag\":" + vf::jstr(tag)); }
  // all rungs of one ladder construct go to the same worker, in ascending order
  uint64_t hash() const { if (tag.rfind("ladder:", 0) == 0) return vf::fnv(tag.substr(0, tag.find(':', 7))); uint64_t h = vf::fnv(main); for (auto &p : files) { h = vf::fnv(p.first, h); h = vf::fnv(p.second, h); } return vf::fnv(tag, h); }
  std::string key() const { if (!tag.empty()) return tag.rfind("ladder:", 0) == 0 ? tag : tag; std::string k; for (auto &p : files) k += p.first + "=" + p.second + "|"; k += "main=" + main; for (auto &c : k) if (c == '\n') c = ' '; return k; }
  static Case from(const vf::J &j) { return {j["files"].strmap(), j["main"].s, j.has("tag") ? j["tag"].s : ""}; }
};
typedef std::function<void(const Case &)> CB;
typedef drv::Level<Case> Level;
static Case single(const std::string &src) { return {{{"main", src}}, "main", ""}; }

// ---- vocabularies ----------------------------------------------------------------------------------------------------
static std::vector<std::string> vocab_core() {  // 29 kinds/spellings: the language's own vocabulary + junk
  return {"a", "b", "0", "7", "PROGRAM", "IN", "OUT", "DO", "END", "LOOP", "WHILE", "GOTO", "IF", "THEN", "STOP", "RUN", "WITH",
          ";", ":", ":=", "=", "!= 0", ",", "+", "-", "(", "$0", "#0", "<V>"};
}
static std::vector<std::string> vocab_full() {
  std::vector<std::string> v = vocab_core();
  for (auto s : {"DEFINE", "AS", "ENDDEF", "PRIO", "<P>", "<ID>", "<INT>", "<A>", "$7", ")", "INCLUDE", "\"f\"", "\"nofile\"", "2147483647", "foo", "__INC__", "__DEC__", "f"}) v.push_back(s);
  return v;
}
static std::string join(const std::vector<std::string> &t) { std::string o; for (size_t i = 0; i < t.size(); i++) { if (i) o += " "; o += t[i]; } return o; }

static Level fam_sigma(const std::vector<std::string> &V, int k, const std::string &name, const Files &extra = {}) {
  return {name + "^<=" + std::to_string(k), [=](const CB &cb) {
            for (int n = 0; n <= k; n++) {
              std::vector<int> ix(n, 0);
              for (;;) {
                std::vector<std::string> t; for (int i = 0; i < n; i++) t.push_back(V[ix[i]]);
                Case c = single(join(t)); for (auto &e : extra) c.files[e.first] = e.second; cb(c);
                int i = 0; while (i < n && ++ix[i] == (int)V.size()) ix[i++] = 0;
                if (i == n) break;
              }
            } }};
}

static std::vector<std::string> seeds() {
  return {
      "a := 0",
      "a := b + 7",
      "a := RUN f WITH END",
      "la : a := 0 ; GOTO la",
      "IF a = 0 THEN GOTO la ; la : STOP",
      "LOOP a DO b := b + 1 END",
      "WHILE a != 0 DO a := a - 1 END ; b := 7",
      "PROGRAM f DO a := 0 END b := RUN f WITH END",
      "PROGRAM f IN a DO x0 := a END b := RUN f WITH 7 END",
      "PROGRAM f IN a , b OUT c DO c := a END b := RUN f WITH 7 , b END",
      "PROGRAM f IN a DO x0 := a END PROGRAM g IN a DO x0 := RUN f WITH a END END b := RUN g WITH RUN f WITH 0 END END",
      "PROGRAM f IN a OUT a DO la : a := a - 1 ; IF a = 0 THEN GOTO lb ; GOTO la ; lb : STOP END a := RUN f WITH 7 END",
      "a := 7 ; LOOP a DO WHILE b != 0 DO b := b - 1 END ; b := a END ; la : lb : a := a + 1",
      "PROGRAM f IN a DO x0 := a END PROGRAM f IN a , b DO x0 := RUN f WITH b END END a := RUN f WITH 0 , 7 END",
  };
}
static std::vector<std::string> seeds_macro() {
  return {
      "DEFINE foo AS a := 0 ENDDEF foo",
      "DEFINE PRIO 7 <ID> ( <A> ) AS RUN $0 WITH $1 END ENDDEF PROGRAM f IN a DO x0 := a END b := f ( 7 )",
      "DEFINE IF <V> THEN <P> ELSE <P> END AS #0 := $0 ; LOOP #0 DO $1 END ENDDEF IF a THEN b := 0 ELSE b := 7 END",
      "DEFINE <V> + <V> AS RUN add WITH $0 , $1 END ENDDEF DEFINE NOP AS _ := 0 ENDDEF a := a + b ; NOP",
      "INCLUDE \"f\" a := 0",
      "DEFINE <INT> ! AS $0 ENDDEF a := 7 !",
  };
}
static std::vector<std::string> split_ws(const std::string &s) {  // "!= 0" is one token
  std::vector<std::string> t; std::string cur; std::istringstream in(s); std::string w;
  while (in >> w) { if (!t.empty() && t.back() == "!=" && w == "0") t.back() = "!= 0"; else t.push_back(w); }
  return t;
}

// all 1-edits (delete, insert any vocabulary token, replace, swap adjacent) of every seed; optionally 2-edits of short seeds
static void edits1(const std::vector<std::string> &t, const std::vector<std::string> &V, const std::function<void(const std::vector<std::string> &)> &cb) {
  int n = (int)t.size();
  for (int i = 0; i < n; i++) { auto u = t; u.erase(u.begin() + i); cb(u); }
  for (int i = 0; i <= n; i++) for (auto &v : V) { auto u = t; u.insert(u.begin() + i, v); cb(u); }
  for (int i = 0; i < n; i++) for (auto &v : V) { if (v == t[i]) continue; auto u = t; u[i] = v; cb(u); }
  for (int i = 0; i + 1 < n; i++) { if (t[i] == t[i + 1]) continue; auto u = t; std::swap(u[i], u[i + 1]); cb(u); }
}
static Level fam_edits(const std::vector<std::string> &S, const std::vector<std::string> &V, int two_edit_maxlen, const std::string &name, const Files &extra = {}) {
  return {name, [=](const CB &cb) {
            auto emit = [&](const std::vector<std::string> &t) { Case c = single(join(t)); for (auto &e : extra) c.files[e.first] = e.second; cb(c); };
            for (auto &s : S) {
              auto t = split_ws(s); emit(t);
              edits1(t, V, [&](const std::vector<std::string> &u) { emit(u); if ((int)t.size() <= two_edit_maxlen) edits1(u, V, emit); });
            } }};
}
// up to four-fold deletions and adjacent swaps
static Level fam_multi_del(const std::vector<std::string> &S) {
  return {"seeds:<=4 deletions/adjacent swaps", [=](const CB &cb) {
            for (auto &s : S) {
              auto t = split_ws(s); int n = (int)t.size();
              std::function<void(std::vector<std::string>, int, int)> rec = [&](std::vector<std::string> u, int from, int left) {
                cb(single(join(u)));
                if (!left) return;
                for (int i = from; i < (int)u.size(); i++) { auto w = u; w.erase(w.begin() + i); rec(w, i, left - 1); }
              };
              rec(t, 0, 4);
              std::function<void(std::vector<std::string>, int, int)> rs = [&](std::vector<std::string> u, int from, int left) {
                if (left < 4) cb(single(join(u)));
                if (!left) return;
                for (int i = from; i + 1 < n; i++) { if (u[i] == u[i + 1]) continue; auto w = u; std::swap(w[i], w[i + 1]); rs(w, i + 2, left - 1); }
              };
              rs(t, 0, 4);
            } }};
}
// every keyword spelling at every keyword position
static Level fam_spellings(const std::vector<std::string> &S) {
  return {"seeds:keyword spellings", [=](const CB &cb) {
            std::map<int, std::vector<std::string>> sp; for (auto &r : ref::rules()) if (r.special == 0 && r.alts.size() > 1) sp[r.kind] = r.alts;
            for (auto &s : S) {
              auto t = split_ws(s);
              for (size_t i = 0; i < t.size(); i++) { auto lx = ref::lex(t[i], "x"); if (lx.size() != 1 || !sp.count(lx[0].k)) continue;
                for (auto &alt : sp[lx[0].k]) { auto u = t; u[i] = alt; cb(single(join(u))); }
                // near misses: one character added / removed -> identifier
                { auto u = t; u[i] = t[i] + "x"; cb(single(join(u))); u[i] = t[i].substr(1); if (!u[i].empty()) cb(single(join(u))); }
              }
            } }};
}
static Level fam_literal_boundary(const std::vector<std::string> &S) {
  return {"seeds:literal boundary", [=](const CB &cb) {
            for (auto &s : S) { auto t = split_ws(s);
              for (size_t i = 0; i < t.size(); i++) if (t[i] == "0" || t[i] == "7") { std::vector<std::string> L2 = {"2147483645", "2147483646", "2147483647", "2147483648", "4294967295", "4294967296", "9223372036854775807", "9223372036854775808", "18446744073709551616"}; for (int n = 9; n <= 40; n += (n < 22 ? 1 : 6)) L2.push_back(std::string(n, '9')); for (auto &l : L2) { auto u = t; u[i] = l; cb(single(join(u))); } } } }};
}

// ---- sentences of the reference grammar, by length ------------------------------------------------------------------
struct SentGen {
  // grammar of parse.cpp:36-65 over spellings; ids {a,b,f}, ints {0,7}; RUN callee f; labels {a}
  std::map<std::string, std::vector<std::vector<std::string>>> G = {
      {"S", {{"PROGRAM", "fname", "PORTS", "DO", "P", "END", "S"}, {"P"}}},
      {"PORTS", {{"IN", "ARGS", "OPORTS"}, {}}},
      {"OPORTS", {{"OUT", "id"}, {}}},
      {"ARGS", {{"id", "MARGS"}}},
      {"MARGS", {{",", "ARGS"}, {}}},
      {"P", {{"id", ":=", "VALUE", "MOREP"}, {"lab", ":", "P"}, {"LOOP", "id", "DO", "P", "END", "MOREP"}, {"WHILE", "id", "!= 0", "DO", "P", "END", "MOREP"},
             {"GOTO", "lab", "MOREP"}, {"IF", "id", "=", "int", "THEN", "GOTO", "lab", "MOREP"}, {"STOP", "MOREP"}}},
      {"MOREP", {{";", "P"}, {}}},
      {"VALUE", {{"id"}, {"int"}, {"id", "+", "int"}, {"RUN", "fname", "WITH", "VARGS", "END"}}},
      {"VARGS", {{}, {"VALUE", "MVARGS"}}},
      {"MVARGS", {{",", "VALUE", "MVARGS"}, {}}},
      {"id", {{"a"}, {"b"}}}, {"int", {{"0"}, {"7"}}}, {"fname", {{"f"}}}, {"lab", {{"la"}}},
  };
  std::map<std::pair<std::string, int>, std::vector<std::vector<std::string>>> memo;
  const std::vector<std::vector<std::string>> &gen(const std::string &nt, int n) {
    auto key = std::make_pair(nt, n); auto it = memo.find(key); if (it != memo.end()) return it->second;
    std::vector<std::vector<std::string>> out;
    if (!G.count(nt)) { if (n == 1) out.push_back({nt}); return memo[key] = out; }
    for (auto &prod : G[nt]) {
      // distribute n over the symbols
      std::function<void(size_t, int, std::vector<std::string> &)> rec = [&](size_t si, int left, std::vector<std::string> &cur) {
        if (si == prod.size()) { if (left == 0) out.push_back(cur); return; }
        int minrest = 0; for (size_t k = si + 1; k < prod.size(); k++) if (!G.count(prod[k])) minrest++;
        for (int take = 0; take <= left - minrest; take++) {
          if (!G.count(prod[si]) && take != 1) continue;
          auto subs = gen(prod[si], take);  // copy: memo may rehash
          for (auto &sub : subs) { size_t sz = cur.size(); cur.insert(cur.end(), sub.begin(), sub.end()); rec(si + 1, left - take, cur); cur.resize(sz); }
        }
      };
      std::vector<std::string> cur; rec(0, n, cur);
    }
    std::sort(out.begin(), out.end()); out.erase(std::unique(out.begin(), out.end()), out.end());
    return memo[key] = out;
  }
};
static Level fam_sentences(int L, int editL) {
  return {"grammar sentences<=" + std::to_string(L) + " tokens (+1-edits of those <=" + std::to_string(editL) + ")", [=](const CB &cb) {
            SentGen g; auto V = vocab_core();
            for (int n = 1; n <= L; n++) for (auto &s : std::vector<std::vector<std::string>>(g.gen("S", n))) {
              cb(single(join(s)));
              if (n <= editL) edits1(s, V, [&](const std::vector<std::string> &u) { cb(single(join(u))); });
            } }};
}

// ---- byte level, file-map shapes, size ladder (C02) ------------------------------------------------------------------
static Level fam_bytes(int k) {
  return {"bytes^<=" + std::to_string(k), [=](const CB &cb) {
            std::string A = std::string("\0", 1) + "\r\x80\"/<$#a0 \n:=!;"; A.resize(16);
            for (int n = 0; n <= k; n++) { std::vector<int> ix(n, 0);
              for (;;) { std::string s; for (int i = 0; i < n; i++) s += A[ix[i]]; cb(single(s));
                int i = 0; while (i < n && ++ix[i] == (int)A.size()) ix[i++] = 0; if (i == n) break; } } }};
}
static Level fam_filemaps() {
  return {"file-map shapes", [=](const CB &cb) {
            std::vector<std::string> contents = {"", "a := 0", "INCLUDE \"e\"", "INCLUDE \"main\"", "INCLUDE \"__standards__\" a := a + 1", "INCLUDE", "INCLUDE \"", "DEFINE", "DEFINE a AS", "a := 0 ;", "\"", "// c", "\n\n"};
            for (auto &m : contents) for (auto &e : contents) for (int hasmain = 0; hasmain < 2; hasmain++) for (int hase = 0; hase < 2; hase++)
              for (std::string mainname : {"main", "", "absent", "__standards__", "-"}) {
                Case c; c.main = mainname; if (hasmain) c.files[mainname == "absent" ? "main" : mainname] = m; if (hase) c.files["e"] = e;
                cb(c);
                Case d = c; d.files["__standards__"] = "DEFINE foo AS a := 0 ENDDEF"; cb(d);
              } }};
}
// every numeric literal form in every numeric position (statement constants, +/- operands, IF constants, call arguments,
// macro priorities, insertion indices of used and unused macros, temporaries)
static Level fam_numeric_positions() {
  return {"literal forms x numeric positions", [=](const CB &cb) {
            std::vector<std::string> lits = {"0", "7", "2147483646", "2147483647", "2147483648", "4294967295", "4294967296", "4294967297", "9223372036854775807", "9223372036854775808", "18446744073709551615", "18446744073709551616", "99999999999999999999", "1000000000000000000000000000000000000000"};
            for (auto &l : lits) for (std::string t : {
                   "a := @", "a := 7 ; a := a + @", "a := 7 ; a := a - @", "la : a := 1 ; IF a = @ THEN GOTO la", "PROGRAM f IN a DO x0 := a END b := RUN f WITH @ END", "LOOP a DO a := @ END",
                   "DEFINE PRIO @ foo AS a := 0 ENDDEF foo", "DEFINE PRIO @ foo AS a := 0 ENDDEF a := 0", "DEFINE foo <V> AS a := $@ ENDDEF foo 3", "DEFINE foo <V> AS a := $@ ENDDEF a := 0",
                   "DEFINE foo AS a := $@ ENDDEF foo", "DEFINE foo <V> <V> AS a := $@ ENDDEF foo 1 2", "DEFINE foo AS #@ := 1 ENDDEF foo ; foo", "DEFINE foo @ AS a := 1 ENDDEF foo @", "a := $@", "a := #@"}) {
              std::string src = t; size_t p; while ((p = src.find('@')) != std::string::npos) src.replace(p, 1, l);
              cb(single(src));
            } }};
}
static std::string rep(const std::string &s, long n) { std::string o; o.reserve(s.size() * n); for (long i = 0; i < n; i++) o += s; return o; }
static Files ladder_files(const std::string &construct, long n) {
  Files f;
  if (construct == "statement_chain") f["main"] = rep("a := 0 ;\n", n) + "a := 0";
  else if (construct == "loop_nesting") f["main"] = rep("LOOP a DO\n", n) + "a := 0\n" + rep("END\n", n);
  else if (construct == "argument_nesting") f["main"] = "PROGRAM f IN a DO x0 := a END\nb := " + rep("RUN f WITH ", n) + "0" + rep(" END", n);
  else if (construct == "label_chain") f["main"] = rep("a :\n", n) + "a := 0";
  else if (construct == "stray_separators") f["main"] = "a := 0 " + rep(";", n);
  else if (construct == "argument_list") { std::string a; for (long i = 0; i < n; i++) a += (i ? ", 0" : "0"); f["main"] = "b := RUN f WITH " + a + " END"; }
  else if (construct == "definitions") f["main"] = rep("PROGRAM f DO a := 0 END\n", n) + "a := 0";
  else if (construct == "macro_body") f["main"] = "DEFINE foo AS " + rep("a := 0 ; ", n) + "a := 0 ENDDEF\nfoo";
  else if (construct == "macro_pattern") f["main"] = "DEFINE " + rep("foo ", n) + "AS a := 0 ENDDEF\na := 0";
  else if (construct == "macro_uses") f["main"] = "DEFINE foo AS a := 0 ENDDEF\n" + rep("foo ;\n", n) + "foo";
  else if (construct == "include_chain") { for (long i = 0; i < n; i++) f["f" + std::to_string(i)] = "INCLUDE \"f" + std::to_string(i + 1) + "\"\n"; f["f" + std::to_string(n)] = "a := 0"; f["main"] = "INCLUDE \"f0\""; }
  else if (construct == "long_identifier") f["main"] = rep("a", n) + " := 0";
  else if (construct == "long_literal") f["main"] = "a := " + rep("9", n);
  else if (construct == "junk_tokens") f["main"] = rep("( ", n);
  else if (construct == "unterminated_defines") f["main"] = rep("DEFINE a ", n);
  return f;
}
static Level fam_ladder(int maxlog) {
  return {"size ladder 2^6..2^" + std::to_string(maxlog), [=](const CB &cb) {
            { Case k; k.main = "main"; k.tag = "growth:slot_duplication"; k.files["main"] = "PROGRAM f IN a, b DO x0 := a END\nDEFINE foo <V> AS foo RUN f WITH $0 , $0 END ENDDEF\nx1 := foo 1"; cb(k); }
            for (std::string c : {"statement_chain", "loop_nesting", "argument_nesting", "label_chain", "stray_separators", "argument_list", "definitions", "macro_body", "macro_pattern", "macro_uses", "include_chain", "long_identifier", "long_literal", "junk_tokens", "unterminated_defines"})
              for (int lg = 6; lg <= maxlog; lg++) {
                if ((c == "macro_pattern") && lg > 13) continue;   // pattern tables are quadratic: 2^15 takes minutes
                if ((c == "macro_uses") && lg > 9) continue;        // each use costs one pass of the 1024-pass budget
                if ((c == "include_chain") && lg > 13) continue;
                Case k; k.main = "main"; k.tag = "ladder:" + c + ":2^" + std::to_string(lg); cb(k);
              } }};
}

// ---- oracles -----------------------------------------------------------------------------------------------------------
static int g_since_leakcheck = 0; static bool g_force_leakcheck = false;
static void oracle_C02(const struct Case &c0, vf::Stats &st);
// constructs of the size ladder whose smaller rung already failed (file shared between the driver and its workers)
static std::string ladder_file(bool parent) { return "/dev/shm/vf_ladder_failed_" + std::to_string(parent ? getpid() : getppid()); }
static bool ladder_failed(const std::string &construct) { std::ifstream f(ladder_file(false)); std::string l; while (std::getline(f, l)) if (l == construct) return true; return false; }
static void oracle_C02(const Case &c0, vf::Stats &st) {
  Case c = c0;
  if (!c.tag.empty() && c.tag.rfind("ladder:", 0) == 0) {
    size_t p = c.tag.find(':', 7); std::string construct = c.tag.substr(7, p - 7); long n = 1L << atoi(c.tag.c_str() + p + 3);
    if (ladder_failed(construct)) { st.add("ladder_rungs_skipped(a smaller rung of the construct already fails)"); return; }
    c.files = ladder_files(construct, n); st.add("ladder_rungs");
  }
  st.add("cases");
  std::string cj = c0.json(); std::string key = c0.key();
  // Inputs whose macro expansion is still rewriting after 12 steps are not pushed through the fixed 1024-pass budget of
  // compile(): each pass re-parses the whole (growing) stream, so one such input costs minutes under the sanitizers.
  // The probe itself runs the real scanner, extractor and expander (budget 12) under the sanitizers; the budget logic
  // for diverging macro sets is C11's subject (small budgets, all macro sets).
  bool has_define = false; for (auto &f : c.files) for (const char *d : {"DEFINE", "Define", "Def", "define", "def"}) if (f.second.find(d) != std::string::npos) has_define = true;
  if (has_define && c.tag.empty()) {  // (tagged cases - ladder, growth - always go through compile())
    Files pf = c.files;
    pf.insert({"__standards__", "DEFINE PRIO 1000000 <ID> + <INT> AS RUN __INC__ WITH $0, $1 END END DEFINE\nDEFINE PRIO 1000000 <ID> - <INT> AS RUN __DEC__ WITH $0, $1 END END DEFINE\n  "});
    if (pf.count(c.main)) pf[c.main] = "include \"__standards__\"" + pf[c.main];
    Theo::ScanResult sr = Theo::scan(pf, c.main);
    Theo::MacroExtractionResult mer = Theo::extract_macros(sr.toks);
    Theo::MacroApplicationResult mar = Theo::apply_macros(mer.tokens, mer.macros, 12);
    bool diverging = false; for (auto &e : mar.errors) if (e.t == Theo::ParseError::MACRO_APPLY_REACHED_MAX_PASSES) diverging = true;
    st.add("macro_probes");
    if (diverging) { st.add("skipped_still_rewriting_after_12_steps(left to C11)"); st.nontrivial.insert(c0.hash()); return; }
  }
  Theo::CodegenResult r;
  if (c.tag.rfind("growth:", 0) == 0) {
    // a source whose expansion multiplies the stream: run with an address-space limit so that exhaustion arrives as
    // std::bad_alloc instead of taking the machine down; a result within the limits would be fine
    struct rlimit old, lim; getrlimit(RLIMIT_AS, &old); lim = old; lim.rlim_cur = 768ULL << 20; setrlimit(RLIMIT_AS, &lim);
    std::string thrown;
    try { r = Theo::compile(c.files, c.main); } catch (std::exception &e) { thrown = e.what(); }
    setrlimit(RLIMIT_AS, &old);
    if (!thrown.empty()) { st.violation(key, "compile() did not return a result: it threw '" + thrown + "' after exhausting a 768 MiB address space on a " + std::to_string(c.files.at("main").size()) + "-byte source (the token stream grows geometrically, 1024 passes)", cj); return; }
  } else r = Theo::compile(c.files, c.main);
  auto S = [](long long x) { return std::to_string(x); };
  if (r.generated_correctly != r.errors.empty()) { st.violation(key, std::string("generated_correctly=") + (r.generated_correctly ? "true" : "false") + " with " + S(r.errors.size()) + " errors", cj); return; }
  for (auto &e : r.errors) {
    if (e.message.empty()) { st.violation(key, "error with an empty message at " + e.file + ":" + S(e.line), cj); return; }
    if (e.file == "-") continue;
    if (e.file == "__standards__" && !c.files.count("__standards__")) { if (e.line < 1 || e.line > 3) { st.violation(key, "error located at __standards__:" + S(e.line), cj); return; } continue; }
    auto f = c.files.find(e.file);
    if (f == c.files.end()) { st.violation(key, "error located in '" + e.file + "':" + S(e.line) + " which is not a supplied file: " + e.message, cj); return; }
    long nl = std::count(f->second.begin(), f->second.end(), '\n');
    if (e.line < 1 || e.line > 1 + nl) { st.violation(key, "error located at " + e.file + ":" + S(e.line) + " but the file has " + S(1 + nl) + " lines: " + e.message, cj); return; }
  }
  for (auto &q : r.file_requests) if (c.files.count(q)) { st.violation(key, "file request for '" + q + "' which was supplied", cj); return; }
  if (r.generated_correctly) st.add("accepted"); else st.add("rejected");
  uint64_t oh = r.generated_correctly ? 1 : 0; for (auto &e : r.errors) oh = vf::mix(oh ^ (uint64_t)e.t * 31 ^ vf::fnv(e.file)); st.outcomes.insert(oh);
  if (!r.generated_correctly) st.nontrivial.insert(c0.hash());
  if (!r.errors.empty() && r.errors.size() >= 2) st.sample("{\"files\":" + vf::jmap(c.tag.empty() ? c.files : Files{}) + ",\"main\":" + vf::jstr(c.main) + ",\"tag\":" + vf::jstr(c.tag) + ",\"errors\":" + S(r.errors.size()) + ",\"first_error\":" + vf::jstr(r.errors[0].file + ":" + S(r.errors[0].line) + " " + r.errors[0].message) + "}", 3);
#if defined(__SANITIZE_ADDRESS__)
  // LeakSanitizer: once per batch of 64 compilations (a check costs a stop-the-world scan). When a batch leaks, its inputs
  // are re-run one by one in fresh processes with a check after each, so that the leaking input is identified exactly
  // and the replay of that one input reproduces it. Later reports in this process would repeat the leak, so checking stops.
  static bool leaked = false; static std::vector<Case> recent;
  if (g_force_leakcheck) { if (__lsan_do_recoverable_leak_check()) st.violation("leak:" + key, "LeakSanitizer reports memory leaked by this compilation (allocation stacks on stderr of the replay)", cj); return; }
  if (!leaked) {
    recent.push_back(c0);
    if (recent.size() >= 64 || !c.tag.empty()) {
      st.add("leak_checks");
      if (__lsan_do_recoverable_leak_check()) {
        leaked = true; bool found = false;
        for (auto &rc : recent) {
          std::string how = vf::run_isolated([&]() { g_force_leakcheck = true; vf::Stats s2; oracle_C02(rc, s2); return s2.nviol ? 3 : 0; }, 120);
          if (how == "exit 3") { st.violation("leak:" + rc.key(), "LeakSanitizer reports memory leaked by this compilation (allocation stacks on stderr of the replay)", rc.json()); found = true; break; }
        }
        if (!found) st.violation("leak-in-batch-ending:" + key, "LeakSanitizer reports a leak after a batch of " + std::to_string(recent.size()) + " compilations, none of which leaks when run alone in a fresh process", cj);
      }
      recent.clear();
    }
  }
#endif
}

static void oracle_C04(const Case &c, vf::Stats &st) {
  st.add("cases");
  orc::An a(c.files, c.main);
  if (a.macros) { st.add("skipped_user_macros"); return; }
  bool ref_accept = a.scan_ok && a.fr.accept;
  if (a.scan_ok && a.fr.excluded) { st.add("skipped_excluded:" + a.fr.excluded_why.substr(0, 24)); return; }
  a.compile();
  if (ref_accept) { st.add("ref_accepts"); st.nontrivial.insert(c.hash()); } else st.add("ref_rejects");
  st.outcomes.insert(vf::fnv(ref_accept ? "accept" : a.scan_ok ? a.fr.why.substr(0, a.fr.why.find(" at token")) : "scan"));
  if (ref_accept != a.cr.generated_correctly) {
    std::string errs; for (auto &e : a.cr.errors) errs += e.message + "; ";
    st.violation(a.key(), ref_accept ? "a sentence of the language is rejected: " + errs.substr(0, 300) : "accepted although not in the language: " + (a.scan_ok ? a.fr.why : std::string("scanner error")), a.cj);
    return;
  }
  if (!a.cr.generated_correctly && a.cr.errors.empty()) { st.violation(a.key(), "rejected without any error", a.cj); return; }
  { // membership is a function of the source: the same buffer compiled again (an editor recompiling) gets the same verdict
    Theo::CodegenResult again = Theo::compile(c.files, c.main);
    if (again.generated_correctly != ref_accept) { st.violation(a.key(), std::string("compiled a second time in the same process the source is ") + (again.generated_correctly ? "accepted" : "rejected") + ", the first time it was " + (ref_accept ? "accepted" : "rejected: " + (a.scan_ok ? a.fr.why : std::string("scanner error"))), a.cj); return; }
    if (again.errors.size() != a.cr.errors.size()) { st.violation(a.key(), "compiled a second time in the same process the source gets " + std::to_string(again.errors.size()) + " errors, the first time " + std::to_string(a.cr.errors.size()), a.cj); return; }
    st.add("recompiled_same_verdict"); }
  if (ref_accept) st.sample("{\"accepted\":" + vf::jstr(c.files.at("main")) + "}", 2); else if (c.files.at("main").size() > 12) st.sample("{\"rejected\":" + vf::jstr(c.files.at("main")) + ",\"why\":" + vf::jstr(a.scan_ok ? a.fr.why : "scan") + "}", 2);
}

int main(int argc, char **argv) {
  drv::Args args = drv::Args::parse(argc, argv); bool T = args.thorough();
  if (!args.replay.empty()) g_force_leakcheck = true;
  std::vector<Level> L; std::function<void(const Case &, vf::Stats &)> o; double limit = 20;
  Files lib = {{"f", "PROGRAM f IN a DO x0 := a END"}};
  if (args.prop == "C02") {
    o = oracle_C02; limit = 60;
    auto allseeds = seeds(); for (auto &s : seeds_macro()) allseeds.push_back(s);
    if (args.part == "ladder") { L = {fam_ladder(T ? 17 : 13)}; args.shards = 8; }
    else {
      L = {fam_filemaps(), fam_numeric_positions(), fam_sigma(vocab_full(), 2, "full-vocabulary", lib), fam_bytes(3), fam_edits(allseeds, vocab_full(), 0, "seeds:1-edits(full vocabulary)", lib), fam_sigma(vocab_full(), 3, "full-vocabulary", lib)};
      if (T) { L.push_back(fam_bytes(4)); L.push_back(fam_edits(allseeds, vocab_full(), 6, "seeds:2-edits of seeds<=6 tokens", lib)); L.push_back(fam_sigma(vocab_full(), 4, "full-vocabulary", lib)); L.push_back(fam_bytes(5)); }
    }
  } else if (args.prop == "C04") {
    o = oracle_C04;
    L = {fam_sigma(vocab_core(), 3, "core-vocabulary"), fam_edits(seeds(), vocab_core(), 0, "seeds:1-edits"), fam_spellings(seeds()), fam_literal_boundary(seeds()), fam_sentences(9, 5), fam_multi_del(seeds()), fam_sigma(vocab_core(), 4, "core-vocabulary")};
    if (T) { L.push_back(fam_sentences(11, 7)); L.push_back(fam_edits(seeds(), vocab_core(), 8, "seeds:2-edits of seeds<=8 tokens")); L.push_back(fam_sigma(vocab_core(), 5, "core-vocabulary")); }
  } else { fprintf(stderr, "ERROR: unknown property %s\n", args.prop.c_str()); return 2; }
  unlink(ladder_file(true).c_str());
  int rc = drv::run<Case>(args, L, o, {}, limit, [](const Case &c) { if (c.tag.rfind("ladder:", 0) == 0) { std::ofstream f(ladder_file(true), std::ios::app); f << c.tag.substr(7, c.tag.find(':', 7) - 7) << "\n"; } });
  unlink(ladder_file(true).c_str());
  return rc;
}
