// Enumerators of program families F-A (structured), F-B (jumps), F-C (calls) and the layout printers.
// Every enumerator visits each member of its family exactly once, simplest first.
#pragma once
#include <functional>
#include <map>
#include <string>
#include <vector>

namespace gen {

struct GS {
  enum T { ATOM, LOOP, WHILE } t = ATOM;
  std::string text;          // ATOM: statement text; LOOP/WHILE: variable
  std::vector<GS> body;
  std::string labels;        // "la: " prefix(es)
  int uses = 0;              // bit0: jumps to la, bit1: jumps to lb (ATOM)
};
typedef std::vector<GS> Seq;

inline int count_nodes(const Seq &s) { int n = 0; for (auto &g : s) n += 1 + count_nodes(g.body); return n; }

// ---- printers -------------------------------------------------------------------------------------------------------
// one statement per line (F-L): label on its statement's line, END on its own line, ';' at the end of the line
inline void print_lines(const Seq &s, std::vector<std::string> &out, int indent = 0) {
  for (size_t i = 0; i < s.size(); i++) {
    const GS &g = s[i]; std::string pad(indent * 2, ' '); std::string sep = (i + 1 < s.size()) ? ";" : "";
    if (g.t == GS::ATOM) out.push_back(pad + g.labels + g.text + sep);
    else {
      out.push_back(pad + g.labels + (g.t == GS::LOOP ? "LOOP " + g.text + " DO" : "WHILE " + g.text + " != 0 DO"));
      print_lines(g.body, out, indent + 1);
      out.push_back(pad + "END" + sep);
    }
  }
}
inline std::string join_lines(const std::vector<std::string> &l) { std::string o; for (auto &x : l) o += x + "\n"; return o; }
inline std::string print_fl(const Seq &s) { std::vector<std::string> l; print_lines(s, l); return join_lines(l); }
// everything on one line
inline std::string print_flat(const Seq &s) {
  std::string o;
  for (size_t i = 0; i < s.size(); i++) {
    const GS &g = s[i];
    if (i) o += "; ";
    if (g.t == GS::ATOM) o += g.labels + g.text;
    else o += g.labels + (g.t == GS::LOOP ? "LOOP " + g.text + " DO " : "WHILE " + g.text + " != 0 DO ") + print_flat(g.body) + " END";
  }
  return o;
}

// ---- F-A / F-B ------------------------------------------------------------------------------------------------------
struct Alphabet { std::vector<GS> atoms; std::vector<std::string> loopvars; };

inline Alphabet alphabet_FA(bool rich = true) {
  Alphabet a; a.loopvars = {"x0", "x1"};
  std::vector<std::string> rhs = {"x0", "x1", "0", "2", "x0 + 1", "x1 + 1", "x0 - 1", "x1 - 1"};
  if (!rich) rhs = {"x1", "2", "x0 + 1", "x1 - 1"};
  for (auto t : {"x0", "x1"}) for (auto &r : rhs) { GS g; g.text = std::string(t) + " := " + r; a.atoms.push_back(g); }
  GS st; st.text = "STOP"; a.atoms.push_back(st);
  return a;
}
inline Alphabet alphabet_FB() {  // reduced assignment set + jumps
  Alphabet a; a.loopvars = {"x0", "x1"};
  for (auto t : {"x0 := 2", "x0 := x0 - 1", "x1 := x0", "x1 := x1 + 1", "x0 := 0"}) { GS g; g.text = t; a.atoms.push_back(g); }
  int li = 0;
  for (auto l : {"la", "lb"}) {
    GS g; g.text = std::string("GOTO ") + l; g.uses = 1 << li; a.atoms.push_back(g);
    for (auto v : {"x0", "x1"}) for (auto c : {"0", "2"}) { GS h; h.text = std::string("IF ") + v + " = " + c + " THEN GOTO " + l; h.uses = 1 << li; a.atoms.push_back(h); }
    li++;
  }
  return a;
}

// all sequences with exactly n nodes and loop nesting <= depth
inline void enum_seq(const Alphabet &A, int n, int depth, Seq &cur, const std::function<void(const Seq &)> &cb);
inline void enum_stmt(const Alphabet &A, int k, int depth, const std::function<void(const GS &)> &cb) {
  if (k == 1) { for (auto &a : A.atoms) cb(a); return; }
  if (depth <= 0) return;
  for (int kind = 0; kind < 2; kind++)
    for (auto &v : A.loopvars) {
      Seq body;
      enum_seq(A, k - 1, depth - 1, body, [&](const Seq &b) { GS g; g.t = kind == 0 ? GS::LOOP : GS::WHILE; g.text = v; g.body = b; cb(g); });
    }
}
inline void enum_seq(const Alphabet &A, int n, int depth, Seq &cur, const std::function<void(const Seq &)> &cb) {
  for (int k = 1; k <= n; k++) {
    enum_stmt(A, k, depth, [&](const GS &g) {
      cur.push_back(g);
      if (k == n) cb(cur); else enum_seq(A, n - k, depth, cur, cb);
      cur.pop_back();
    });
  }
}
inline void enum_FA(int maxnodes, int depth, bool rich, const std::function<void(const Seq &)> &cb) {
  Alphabet A = alphabet_FA(rich);
  for (int n = 1; n <= maxnodes; n++) { Seq cur; enum_seq(A, n, depth, cur, cb); }
}

inline void preorder(Seq &s, std::vector<GS *> &out) { for (auto &g : s) { out.push_back(&g); preorder(g.body, out); } }
inline int used_labels(const Seq &s) { int u = 0; for (auto &g : s) u |= g.uses | used_labels(g.body); return u; }

// F-B: programs over the jump alphabet that use at least one label; each used label is defined exactly once, on any
// statement (also inside loop bodies, also both on one statement)
// F-B with a used label left undefined (or defined twice): sources the compiler must reject; used to check that nothing
// ill-formed is emitted should one be accepted
inline void enum_FB_undefined(int maxnodes, int depth, const std::function<void(const Seq &)> &cb) {
  Alphabet A = alphabet_FB();
  for (int n = 1; n <= maxnodes; n++) {
    Seq cur;
    enum_seq(A, n, depth, cur, [&](const Seq &s0) {
      int u = used_labels(s0); if (!u) return;
      Seq s = s0; std::vector<GS *> pos; preorder(s, pos); int np = (int)pos.size();
      // la undefined (lb, if used, placed everywhere)
      for (int pb = 0; pb < ((u & 2) ? np : 1); pb++) { for (auto p : pos) p->labels.clear(); if (u & 2) pos[pb]->labels += "lb: "; if (u & 1) cb(s); }
      if (u & 2) for (int pa = 0; pa < ((u & 1) ? np : 1); pa++) { for (auto p : pos) p->labels.clear(); if (u & 1) pos[pa]->labels += "la: "; cb(s); }
    });
  }
}
inline void enum_FB(int maxnodes, int depth, const std::function<void(const Seq &)> &cb) {
  Alphabet A = alphabet_FB();
  for (int n = 1; n <= maxnodes; n++) {
    Seq cur;
    enum_seq(A, n, depth, cur, [&](const Seq &s0) {
      int u = used_labels(s0); if (!u) return;
      Seq s = s0; std::vector<GS *> pos; preorder(s, pos); int np = (int)pos.size();
      for (int pa = 0; pa < ((u & 1) ? np : 1); pa++)
        for (int pb = 0; pb < ((u & 2) ? np : 1); pb++) {
          for (auto p : pos) p->labels.clear();
          if (u & 1) pos[pa]->labels += "la: ";
          if (u & 2) pos[pb]->labels += "lb: ";
          cb(s);
        }
    });
  }
}

// ---- F-C ------------------------------------------------------------------------------------------------------------
struct DefShape { const char *id; int arity; const char *header; std::vector<const char *> body; int needs; /* arity of an earlier def it calls, -1 none */ };
// %N = own name, %C = name of the earlier definition it calls
inline const std::vector<DefShape> &def_pool() {
  static std::vector<DefShape> P = {
      {"const0", 0, "PROGRAM %N DO", {"x0 := 5"}, -1},
      {"inc1", 1, "PROGRAM %N IN a DO", {"x0 := a + 1"}, -1},
      {"outparam", 1, "PROGRAM %N IN a OUT a DO", {"a := a + 2"}, -1},
      {"outunused", 1, "PROGRAM %N IN a OUT y DO", {"x0 := 7"}, -1},
      {"add2", 2, "PROGRAM %N IN a, b OUT r DO", {"r := a;", "LOOP b DO", "  r := r + 1", "END"}, -1},
      {"paramx0", 1, "PROGRAM %N IN x0 DO", {"x0 := x0 + 3"}, -1},
      {"stopper", 1, "PROGRAM %N IN a DO", {"x1 := a;", "STOP"}, -1},
      {"jumper", 1, "PROGRAM %N IN a DO", {"IF a = 0 THEN GOTO l;", "x0 := 1;", "l: x0 := x0 + 4"}, -1},
      {"shadow", 1, "PROGRAM %N IN a DO", {"x1 := 9;", "x0 := x1"}, -1},
      {"whiler", 1, "PROGRAM %N IN a DO", {"WHILE a != 0 DO", "  a := a - 1;", "  x0 := x0 + 2", "END"}, -1},
      {"sub2", 2, "PROGRAM %N IN a, b DO", {"x0 := a;", "LOOP b DO", "  x0 := x0 - 1", "END"}, -1},
      {"callprev1", 1, "PROGRAM %N IN a DO", {"x0 := RUN %C WITH a END;", "x0 := x0 + 1"}, 1},
      {"callprev1twice", 1, "PROGRAM %N IN a DO", {"x0 := RUN %C WITH RUN %C WITH a END END"}, 1},
      {"callprev0", 0, "PROGRAM %N DO", {"x1 := RUN %C WITH END;", "x0 := x1 + 1"}, 0},
      {"callprev2", 1, "PROGRAM %N IN a OUT z DO", {"z := RUN %C WITH a, 2 END"}, 2},
      {"loopcall", 1, "PROGRAM %N IN a DO", {"LOOP a DO", "  x0 := RUN %C WITH x0 END", "END"}, 1},
      {"nestedprev2", 1, "PROGRAM %N IN a OUT a DO", {"a := RUN %C WITH RUN %C WITH a, a END, a END"}, 2},
  };
  return P;
}
struct DefInst { int shape; std::string name; std::string callee; };
inline std::vector<std::string> print_def(const DefInst &d) {
  const DefShape &s = def_pool()[d.shape]; std::vector<std::string> out;
  auto sub = [&](std::string x) { size_t p; while ((p = x.find("%N")) != std::string::npos) x.replace(p, 2, d.name); while ((p = x.find("%C")) != std::string::npos) x.replace(p, 2, d.callee); return x; };
  out.push_back(sub(s.header));
  for (auto b : s.body) out.push_back("  " + sub(b));
  out.push_back("END");
  return out;
}

// all definition lists of length <= maxdefs over names {f,g}(+h): names may repeat (redefinition); a shape that calls an
// earlier definition is instantiated with every earlier definition of the right arity (by name; latest wins at run time)
inline void enum_defs(int maxdefs, const std::vector<int> &shapes, const std::function<void(const std::vector<DefInst> &)> &cb) {
  std::vector<std::string> names = {"f", "g", "h"};
  std::vector<DefInst> cur;
  std::function<void()> rec = [&]() {
    cb(cur);
    if ((int)cur.size() >= maxdefs) return;
    for (int si : shapes) {
      const DefShape &s = def_pool()[si];
      // allowed names: any already used name (redefinition) or the next fresh one
      std::vector<std::string> nm; size_t fresh = 0;
      for (auto &d : cur) { bool seen = false; for (auto &x : nm) if (x == d.name) seen = true; if (!seen) nm.push_back(d.name); }
      fresh = nm.size(); if (fresh < names.size()) nm.push_back(names[fresh]);
      for (auto &n : nm) {
        if (s.needs < 0) { cur.push_back({si, n, ""}); rec(); cur.pop_back(); continue; }
        // callee: the latest definition of each distinct earlier name with the needed arity
        std::vector<std::string> cands;
        for (auto &x : nm) { int ar = -2; for (auto &d : cur) if (d.name == x) ar = def_pool()[d.shape].arity; if (ar == s.needs) cands.push_back(x); }
        for (auto &c : cands) { cur.push_back({si, n, c}); rec(); cur.pop_back(); }
      }
    }
  };
  rec();
}

// main statements for F-C given the visible definitions (latest arity per name)
inline Alphabet alphabet_FC(const std::vector<DefInst> &defs, bool wrong_arity, bool rich) {
  Alphabet A; A.loopvars = {"x1"};
  for (auto t : {"x0 := 2", "x1 := x0", "x1 := x1 + 1"}) { GS g; g.text = t; A.atoms.push_back(g); }
  std::map<std::string, int> ar; std::vector<std::string> order;
  for (auto &d : defs) { if (!ar.count(d.name)) order.push_back(d.name); ar[d.name] = def_pool()[d.shape].arity; }
  std::vector<std::string> args = {"x0", "x1", "2", "x1 + 1"};
  // nested calls as arguments: every visible definition with simple arguments (also as a non-last argument)
  for (auto &n : order) {
    if (ar[n] == 0) args.push_back("RUN " + n + " WITH END");
    if (ar[n] == 1) { args.push_back("RUN " + n + " WITH x1 END"); }
    if (ar[n] == 2) { args.push_back("RUN " + n + " WITH x1, 2 END"); args.push_back("RUN " + n + " WITH x0, x0 END"); }
  }
  if (!rich) args = {"x1", "2"};
  for (auto &n : order) {
    std::vector<int> arities = {ar[n]};
    if (wrong_arity) { arities.push_back(ar[n] + 1); if (ar[n] > 0) arities.push_back(ar[n] - 1); }
    for (int k : arities) {
      std::vector<int> ix(k, 0);
      for (;;) {
        std::string a; for (int i = 0; i < k; i++) a += (i ? ", " : "") + args[ix[i]];
        for (auto t : {"x0", "x1"}) { if (!rich && std::string(t) == "x1") continue; GS g; g.text = std::string(t) + " := RUN " + n + " WITH " + a + (k ? " " : "") + "END"; A.atoms.push_back(g); }
        int i = 0; while (i < k && ++ix[i] == (int)args.size()) ix[i++] = 0;
        if (i == k) break;
      }
    }
  }
  return A;
}

}  // namespace gen
