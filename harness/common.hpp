// Shared plumbing of all drivers: tiny JSON, hashing, sharded crash-contained enumeration, statistics.
#pragma once
#include <signal.h>
#include <sys/mman.h>
#include <sys/resource.h>
#include <sys/time.h>
#include <sys/wait.h>
#include <unistd.h>

#include <algorithm>
#include <chrono>
#include <cstdint>
#include <cstdio>
#include <cstdlib>
#include <cstring>
#include <fstream>
#include <functional>
#include <map>
#include <set>
#include <sstream>
#include <string>
#include <unordered_set>
#include <vector>

namespace vf {

// ---------------------------------------------------------------- JSON (bytes <-> \u00XX, latin-1 style)
inline std::string jstr(const std::string &s) {
  std::string o = "\"";
  char b[8];
  for (unsigned char c : s) {
    if (c == '"') o += "\\\"";
    else if (c == '\\') o += "\\\\";
    else if (c == '\n') o += "\\n";
    else if (c == '\t') o += "\\t";
    else if (c < 0x20 || c >= 0x7f) { snprintf(b, sizeof b, "\\u%04x", c); o += b; }
    else o += (char)c;
  }
  return o + "\"";
}
inline std::string jmap(const std::map<std::string, std::string> &m) {
  std::string o = "{";
  bool f = true;
  for (auto &p : m) { if (!f) o += ","; f = false; o += jstr(p.first) + ":" + jstr(p.second); }
  return o + "}";
}
template <class T> inline std::string jarr_num(const std::vector<T> &v) {
  std::string o = "[";
  for (size_t i = 0; i < v.size(); i++) { if (i) o += ","; o += std::to_string(v[i]); }
  return o + "]";
}
inline std::string jarr_str(const std::vector<std::string> &v) {
  std::string o = "[";
  for (size_t i = 0; i < v.size(); i++) { if (i) o += ","; o += jstr(v[i]); }
  return o + "]";
}
inline std::string jarr_raw(const std::vector<std::string> &v) {
  std::string o = "[";
  for (size_t i = 0; i < v.size(); i++) { if (i) o += ","; o += v[i]; }
  return o + "]";
}

struct J {
  enum T { NUL, BOOL, NUM, STR, ARR, OBJ } t = NUL;
  bool b = false;
  double n = 0;
  std::string s;
  std::vector<J> a;
  std::vector<std::pair<std::string, J>> o;
  const J &operator[](const std::string &k) const {
    static J nul;
    for (auto &p : o) if (p.first == k) return p.second;
    return nul;
  }
  bool has(const std::string &k) const { for (auto &p : o) if (p.first == k) return true; return false; }
  long long i() const { return (long long)n; }
  std::map<std::string, std::string> strmap() const {
    std::map<std::string, std::string> m;
    for (auto &p : o) m[p.first] = p.second.s;
    return m;
  }
};
struct JP {
  const std::string &s; size_t p = 0;
  JP(const std::string &s) : s(s) {}
  void ws() { while (p < s.size() && (s[p] == ' ' || s[p] == '\n' || s[p] == '\t' || s[p] == '\r')) p++; }
  [[noreturn]] void fail(const char *m) { fprintf(stderr, "ERROR: json: %s at %zu\n", m, p); exit(2); }
  J val() {
    ws(); J j;
    if (p >= s.size()) fail("eof");
    char c = s[p];
    if (c == '{') { p++; j.t = J::OBJ; ws(); if (s[p] == '}') { p++; return j; }
      for (;;) { ws(); J k = val(); ws(); if (s[p] != ':') fail(":"); p++; J v = val(); j.o.push_back({k.s, v}); ws();
        if (s[p] == ',') { p++; continue; } if (s[p] == '}') { p++; break; } fail("obj"); }
      return j; }
    if (c == '[') { p++; j.t = J::ARR; ws(); if (s[p] == ']') { p++; return j; }
      for (;;) { j.a.push_back(val()); ws(); if (s[p] == ',') { p++; continue; } if (s[p] == ']') { p++; break; } fail("arr"); }
      return j; }
    if (c == '"') { p++; j.t = J::STR;
      while (p < s.size() && s[p] != '"') {
        if (s[p] == '\\') { p++; char e = s[p++];
          if (e == 'n') j.s += '\n'; else if (e == 't') j.s += '\t'; else if (e == 'r') j.s += '\r';
          else if (e == 'b') j.s += '\b'; else if (e == 'f') j.s += '\f';
          else if (e == 'u') { unsigned v = strtoul(s.substr(p, 4).c_str(), 0, 16); p += 4;
            if (v < 256) j.s += (char)v; else { // utf-8 encode (not produced by us)
              if (v < 0x800) { j.s += (char)(0xC0 | (v >> 6)); j.s += (char)(0x80 | (v & 63)); }
              else { j.s += (char)(0xE0 | (v >> 12)); j.s += (char)(0x80 | ((v >> 6) & 63)); j.s += (char)(0x80 | (v & 63)); } } }
          else j.s += e; }
        else j.s += s[p++]; }
      p++; return j; }
    if (c == 't') { p += 4; j.t = J::BOOL; j.b = true; return j; }
    if (c == 'f') { p += 5; j.t = J::BOOL; j.b = false; return j; }
    if (c == 'n') { p += 4; return j; }
    size_t q = p; while (q < s.size() && (isdigit((unsigned char)s[q]) || s[q] == '-' || s[q] == '+' || s[q] == '.' || s[q] == 'e' || s[q] == 'E')) q++;
    if (q == p) fail("value");
    j.t = J::NUM; j.n = atof(s.substr(p, q - p).c_str()); p = q; return j;
  }
};
inline J jparse(const std::string &s) { JP p(s); return p.val(); }
inline std::string slurp(const std::string &path) {
  std::ifstream f(path, std::ios::binary); std::stringstream ss; ss << f.rdbuf(); return ss.str();
}

// ---------------------------------------------------------------- hashing
inline uint64_t fnv(const void *d, size_t n, uint64_t h = 1469598103934665603ULL) {
  const unsigned char *p = (const unsigned char *)d;
  for (size_t i = 0; i < n; i++) { h ^= p[i]; h *= 1099511628211ULL; }
  return h;
}
inline uint64_t fnv(const std::string &s, uint64_t h = 1469598103934665603ULL) { return fnv(s.data(), s.size(), h); }
inline uint64_t mix(uint64_t x) { x ^= x >> 33; x *= 0xff51afd7ed558ccdULL; x ^= x >> 33; x *= 0xc4ceb9fe1a85ec53ULL; x ^= x >> 33; return x; }

inline double now_s() {
  return std::chrono::duration<double>(std::chrono::steady_clock::now().time_since_epoch()).count();
}

// ---------------------------------------------------------------- statistics
struct Violation { std::string key, what, casejson; };
struct Stats {
  std::map<std::string, long long> cnt;
  std::unordered_set<uint64_t> nontrivial, outcomes;
  std::vector<std::string> samples;  // raw JSON values
  std::vector<Violation> viol;
  long long nviol = 0;
  bool capped = false;
  void add(const std::string &k, long long d = 1) { cnt[k] += d; }
  void max(const std::string &k, long long v) { auto &c = cnt["max_" + k]; if (v > c) c = v; }
  void sample(const std::string &raw, size_t cap = 4) { if (samples.size() < cap) samples.push_back(raw); }
  FILE *vfile = nullptr;  // when set (inside a worker) violations are written through at once, so a later crash cannot lose them
  void violation(const std::string &key, const std::string &what, const std::string &casejson) {
    if (vfile) {
      if (nviol < 40) { fprintf(vfile, "v %s %s %s\n", jstr(key).c_str(), jstr(what).c_str(), casejson.empty() ? "null" : casejson.c_str()); }
      fprintf(vfile, "x 1 0\n"); fflush(vfile); nviol++;
      return;
    }
    nviol++;
    if (viol.size() < 40) viol.push_back({key, what, casejson});
  }
  void merge(const Stats &o) {
    for (auto &p : o.cnt) { if (p.first.rfind("max_", 0) == 0) { auto &c = cnt[p.first]; c = std::max(c, p.second); } else cnt[p.first] += p.second; }
    for (auto h : o.nontrivial) nontrivial.insert(h);
    for (auto h : o.outcomes) outcomes.insert(h);
    for (auto &s : o.samples) if (samples.size() < 8) samples.push_back(s);
    for (auto &v : o.viol) if (viol.size() < 200) viol.push_back(v);
    nviol += o.nviol; capped |= o.capped;
  }
  std::string dump() const {  // one line per record, binary-safe via JSON
    std::string o;
    for (auto &p : cnt) o += "c " + p.first + " " + std::to_string(p.second) + "\n";
    o += "n"; for (auto h : nontrivial) o += " " + std::to_string(h); o += "\n";
    o += "o"; for (auto h : outcomes) o += " " + std::to_string(h); o += "\n";
    for (auto &s : samples) o += "s " + s + "\n";
    for (auto &v : viol) o += "v " + jstr(v.key) + " " + jstr(v.what) + " " + (v.casejson.empty() ? "null" : v.casejson) + "\n";
    o += "x " + std::to_string(vfile ? 0 : nviol) + " " + std::to_string(capped ? 1 : 0) + "\n";
    return o;
  }
  void load(const std::string &txt) {
    std::istringstream in(txt); std::string line;
    while (std::getline(in, line)) {
      if (line.size() < 1) continue;
      char k = line[0]; std::string rest = line.size() > 2 ? line.substr(2) : "";
      if (k == 'c') { size_t sp = rest.rfind(' '); std::string key = rest.substr(0, sp); long long v = atoll(rest.c_str() + sp + 1);
        if (key.rfind("max_", 0) == 0) { auto &c = cnt[key]; c = std::max(c, v); } else cnt[key] += v; }
      else if (k == 'n' || k == 'o') { std::istringstream is(rest); uint64_t h; while (is >> h) (k == 'n' ? nontrivial : outcomes).insert(h); }
      else if (k == 's') { if (samples.size() < 8) samples.push_back(rest); }
      else if (k == 'v') { JP p(rest); J a = p.val(); J b = p.val(); p.ws(); if (viol.size() < 200) viol.push_back({a.s, b.s, rest.substr(p.p)}); }
      else if (k == 'x') { long long a, b; sscanf(rest.c_str(), "%lld %lld", &a, &b); nviol += a; capped |= (b != 0); }
    }
  }
};

// ---------------------------------------------------------------- sharded, crash-contained enumeration
struct Shared {
  volatile uint64_t idx;       // global enumeration index of the case being executed
  volatile uint32_t caselen;
  volatile uint32_t in_case;
  char casebuf[1 << 20];
};

struct Worker {
  int shard = 0, nshards = 1;
  uint64_t idx = 0, resume_after = 0;  // cases with idx <= resume_after are skipped (already done before a crash)
  Shared *sh = nullptr;
  Stats st;
  double deadline = 0;  // absolute, 0 = none
  double case_limit_s = 20;
  bool stop = false;
  // call once per enumerated case, with a cheap hash of the case; true if this worker must execute it
  bool take(uint64_t h) {
    idx++;
    if (stop) return false;
    if ((idx & 1023) == 0 && deadline > 0 && now_s() > deadline) { stop = true; st.capped = true; return false; }
    return (mix(h) % (uint64_t)nshards) == (uint64_t)shard && idx > resume_after;
  }
  // announce the case about to run (serialised), arm the per-case timer
  void begin(const std::string &casejson) {
    if (sh) {
      sh->idx = idx; size_t n = std::min(casejson.size(), sizeof(sh->casebuf) - 1);
      memcpy((void *)sh->casebuf, casejson.data(), n); sh->caselen = n; sh->in_case = 1;
    }
    struct itimerval tv = {{0, 0}, {(long)case_limit_s, (long)((case_limit_s - (long)case_limit_s) * 1e6)}};
    setitimer(ITIMER_REAL, &tv, 0);
  }
  void end() {
    struct itimerval tv = {{0, 0}, {0, 0}}; setitimer(ITIMER_REAL, &tv, 0);
    if (sh) sh->in_case = 0;
  }
};

inline void on_alarm(int) { _exit(77); }

struct CrashInfo { std::string casejson, how, stderr_tail; uint64_t idx; };

// Runs body(worker) in nshards forked processes. A process that dies inside a case is reported through onCrash and a new
// worker is started after that case. Returns the merged statistics.
inline Stats run_sharded(int nshards, const std::function<void(Worker &)> &body,
                         const std::function<void(const CrashInfo &, Stats &)> &onCrash, double deadline_abs = 0,
                         double case_limit_s = 20, const std::string &tmpdir = "/dev/shm") {
  Stats total;
  struct Slot { pid_t pid = 0; Shared *sh = nullptr; std::string out, err; uint64_t resume = 0; int restarts = 0, timeouts = 0; };
  std::vector<Slot> slots(nshards);
  char tag[64]; snprintf(tag, sizeof tag, "vf%d_%ld", (int)getpid(), (long)(now_s() * 1000) % 100000000);
  auto launch = [&](int k) {
    Slot &s = slots[k];
    if (!s.sh) s.sh = (Shared *)mmap(0, sizeof(Shared), PROT_READ | PROT_WRITE, MAP_SHARED | MAP_ANONYMOUS, -1, 0);
    s.sh->in_case = 0; s.sh->idx = 0;
    s.out = tmpdir + "/" + tag + "_" + std::to_string(k) + "_" + std::to_string(s.restarts) + ".out";
    s.err = tmpdir + "/" + tag + "_" + std::to_string(k) + ".err";
    fflush(stdout); fflush(stderr);
    pid_t p = fork();
    if (p == 0) {
      signal(SIGALRM, on_alarm);
      if (!freopen(s.err.c_str(), "w", stderr)) {} setvbuf(stderr, NULL, _IONBF, 0);
      Worker w; w.st.vfile = fopen((s.out + ".viol").c_str(), "w"); w.shard = k; w.nshards = nshards; w.sh = s.sh; w.resume_after = s.resume; w.deadline = deadline_abs; w.case_limit_s = case_limit_s;
      body(w);
      w.end();
      std::string d = w.st.dump();
      FILE *f = fopen(s.out.c_str(), "w"); fwrite(d.data(), 1, d.size(), f); fclose(f);
      fflush(0); _exit(0);
    }
    s.pid = p;
  };
  for (int k = 0; k < nshards; k++) launch(k);
  int live = nshards, total_timeouts = 0;
  while (live > 0) {
    int status = 0; pid_t p = wait(&status);
    if (p < 0) break;
    int k = -1; for (int i = 0; i < nshards; i++) if (slots[i].pid == p) k = i;
    if (k < 0) continue;
    Slot &s = slots[k];
    { Stats sv; sv.load(slurp(s.out + ".viol")); total.merge(sv); unlink((s.out + ".viol").c_str()); }
    bool clean = WIFEXITED(status) && WEXITSTATUS(status) == 0;
    if (clean) { Stats st; st.load(slurp(s.out)); total.merge(st); unlink(s.out.c_str()); unlink(s.err.c_str()); live--; s.pid = 0; continue; }
    // died: partial statistics of this incarnation are lost except what the crash handler re-derives; report
    CrashInfo ci; ci.idx = s.sh->idx; ci.casejson = std::string((const char *)s.sh->casebuf, s.sh->caselen);
    if (WIFSIGNALED(status)) ci.how = "signal " + std::to_string(WTERMSIG(status));
    else if (WEXITSTATUS(status) == 77) ci.how = "timeout";
    else ci.how = "exit " + std::to_string(WEXITSTATUS(status));
    std::string e = slurp(s.err); ci.stderr_tail = e.size() > 3000 ? e.substr(0, 3000) : e;
    if (!s.sh->in_case) {
      if (ci.casejson.empty()) { fprintf(stderr, "ERROR: worker %d died outside a case (%s): %s\n", k, ci.how.c_str(), ci.stderr_tail.c_str()); exit(2); }
      // between two cases: the allocator (or a sanitizer) noticed damage done earlier; the case that finished last is the
      // suspect and is re-run alone by the crash handler like a case that died inside
      ci.how += " just after this case finished";
    }
    total.add("worker_deaths");
    onCrash(ci, total);
    s.resume = ci.idx; s.restarts++; if (ci.how == "timeout") { s.timeouts++; total_timeouts++; }
    if (total_timeouts > 5 || total.nviol > 400) {  // enough evidence: stop the whole level instead of waiting for every hanging / crashing case
      total.capped = true; total.add("level_abandoned_after_many_timeouts_or_crashes");
      s.pid = 0; for (auto &o : slots) if (o.pid) { kill(o.pid, SIGKILL); int st2; waitpid(o.pid, &st2, 0); Stats sv; sv.load(slurp(o.out + ".viol")); total.merge(sv); unlink((o.out + ".viol").c_str()); unlink(o.out.c_str()); unlink(o.err.c_str()); o.pid = 0; }
      live = 0; break;
    }
    if (s.timeouts > 4) { total.capped = true; total.add("shards_abandoned_after_5_timeouts"); live--; s.pid = 0; continue; }
    if (s.restarts > 60) { total.capped = true; total.add("shards_abandoned_after_60_crashes"); live--; s.pid = 0; continue; }
    launch(k);
  }
  for (auto &s : slots) if (s.sh) munmap(s.sh, sizeof(Shared));
  return total;
}

// Run one function in a forked child with a time limit; returns "" if it exited 0, otherwise a description. Output of the
// child's stderr is returned in *err.
inline std::string run_isolated(const std::function<int()> &f, double limit_s, std::string *err = nullptr, std::string *out = nullptr) {
  char tag[96]; snprintf(tag, sizeof tag, "/dev/shm/vfiso%d_%ld", (int)getpid(), (long)(now_s() * 1e6) % 1000000000);
  std::string ef = std::string(tag) + ".err", of = std::string(tag) + ".out";
  fflush(stdout); fflush(stderr);
  pid_t p = fork();
  if (p == 0) {
    signal(SIGALRM, on_alarm);
    if (!freopen(ef.c_str(), "w", stderr)) {} setvbuf(stderr, NULL, _IONBF, 0);
    if (out && !freopen(of.c_str(), "w", stdout)) {}
    struct itimerval tv = {{0, 0}, {(long)limit_s, (long)((limit_s - (long)limit_s) * 1e6)}}; setitimer(ITIMER_REAL, &tv, 0);
    int r = f(); fflush(0); _exit(r);
  }
  int status = 0; waitpid(p, &status, 0);
  if (err) { *err = slurp(ef); if (err->size() > 3000) err->resize(3000); }
  if (out) *out = slurp(of);
  unlink(ef.c_str()); unlink(of.c_str());
  if (WIFEXITED(status) && WEXITSTATUS(status) == 0) return "";
  if (WIFSIGNALED(status)) return "signal " + std::to_string(WTERMSIG(status));
  if (WEXITSTATUS(status) == 77) return "timeout";
  return "exit " + std::to_string(WEXITSTATUS(status));
}

// ---------------------------------------------------------------- result file for the python wrapper
inline std::string stats_json(const Stats &st, const std::map<std::string, std::string> &extra_raw = {}) {
  std::string o = "{";
  o += "\"counters\":{"; bool f = true;
  for (auto &p : st.cnt) { if (!f) o += ","; f = false; o += jstr(p.first) + ":" + std::to_string(p.second); }
  o += "},\"distinct_nontrivial\":" + std::to_string(st.nontrivial.size());
  o += ",\"distinct_outcomes\":" + std::to_string(st.outcomes.size());
  o += ",\"capped\":" + std::string(st.capped ? "true" : "false");
  o += ",\"nviol\":" + std::to_string(st.nviol);
  o += ",\"samples\":" + jarr_raw(st.samples);
  o += ",\"violations\":[";
  for (size_t i = 0; i < st.viol.size(); i++) { if (i) o += ","; o += "{\"key\":" + jstr(st.viol[i].key) + ",\"what\":" + jstr(st.viol[i].what) + ",\"case\":" + (st.viol[i].casejson.empty() ? "null" : st.viol[i].casejson) + "}"; }
  o += "]";
  for (auto &p : extra_raw) o += "," + jstr(p.first) + ":" + p.second;
  return o + "}";
}

inline int env_int(const char *n, int d) { const char *v = getenv(n); return v ? atoi(v) : d; }

}  // namespace vf
