// Engine "lr": C13 — every small context-free grammar x every short end-marked input, full and prefix mode, through the
// real Theo::LRParser / Theo::Grammar, against R-LR (FIRST fixpoint, derivation-tree counter, fold of the unique tree).
#include "Compiler/include/ParserGenerator/lrparser.hpp"
#include "driver_main.hpp"
#include "ref_lr.hpp"

struct Case {
  std::vector<std::pair<int, std::vector<int>>> rules;  // lhs, rhs symbols: 0=A 1=B (non-terminals), 10+t = terminal t
  std::string json() const { std::string o = "{\"kind\":\"grammar\",\"rules\":["; for (size_t i = 0; i < rules.size(); i++) { if (i) o += ","; o += "[" + std::to_string(rules[i].first) + "," + vf::jarr_num(rules[i].second) + "]"; } return o + "]}"; }
  uint64_t hash() const { uint64_t h = 7; for (auto &r : rules) { h = vf::mix(h ^ (uint64_t)r.first); for (int s : r.second) h = vf::mix(h * 31 + s); h = vf::mix(h + 1234567); } return h; }
  std::string text() const { std::string o; const char *nm = "ABCDEFGH"; for (auto &r : rules) { o += std::string(1, nm[r.first]) + " ->"; for (int s : r.second) o += s < 10 ? " " + std::string(1, nm[s]) : " t" + std::to_string(s - 10); if (r.second.empty()) o += " eps"; o += "; "; } return o; }
  int nnt() const { int n = 2; for (auto &r : rules) { n = std::max(n, r.first + 1); for (int s : r.second) if (s < 10) n = std::max(n, s + 1); } return n; }
  std::string key() const { return "grammar:" + text(); }
  static Case from(const vf::J &j) { Case c; for (auto &r : j["rules"].a) { std::vector<int> rhs; for (auto &s : r.a[1].a) rhs.push_back((int)s.i()); c.rules.push_back({(int)r.a[0].i(), rhs}); } return c; }
};
typedef std::function<void(const Case &)> CB;
typedef drv::Level<Case> Level;

static std::vector<std::pair<int, std::vector<int>>> rule_pool(int maxlen) {
  std::vector<std::pair<int, std::vector<int>>> pool; std::vector<int> syms = {0, 1, 11, 12};
  for (int lhs = 0; lhs < 2; lhs++) for (int len = 0; len <= maxlen; len++) {
    std::vector<int> ix(len, 0);
    for (;;) { std::vector<int> rhs; for (int i = 0; i < len; i++) rhs.push_back(syms[ix[i]]); pool.push_back({lhs, rhs});
      int i = 0; while (i < len && ++ix[i] == (int)syms.size()) ix[i++] = 0; if (i == len) break; }
  }
  return pool;
}
static Level fam_grammars(int maxrules, int maxlen) {
  return {"grammars(<=2 NT,<=2 T,<=" + std::to_string(maxrules) + " rules,rhs<=" + std::to_string(maxlen) + ")", [=](const CB &cb) {
            auto pool = rule_pool(maxlen); int n = (int)pool.size();
            for (int a = 0; a < n; a++) { Case c1; c1.rules = {pool[a]}; cb(c1); if (maxrules < 2) continue;
              for (int b = a + 1; b < n; b++) { Case c2; c2.rules = {pool[a], pool[b]}; cb(c2); if (maxrules < 3) continue;
                for (int c = b + 1; c < n; c++) { Case c3; c3.rules = {pool[a], pool[b], pool[c]}; cb(c3); if (maxrules < 4) continue;
                  for (int d = c + 1; d < n; d++) { Case c4; c4.rules = {pool[a], pool[b], pool[c], pool[d]}; cb(c4); } } } } }};
}

static int g_maxlen = 4;

static void oracle_C13(const Case &c, vf::Stats &st) {
  st.add("cases"); std::string cj = c.json(), key = c.key();
  int NNT = c.nnt(); reflr::Grammar rg; rg.nnt = NNT; rg.start = 0; int maxterm = 0;
  for (auto &r : c.rules) { reflr::Rule rr; rr.lhs = r.first; for (int s : r.second) { if (s < 10) rr.rhs.push_back({false, s}); else { rr.rhs.push_back({true, s - 10}); maxterm = std::max(maxterm, s - 10); } } rg.rules.push_back(rr); }
  reflr::First rf = reflr::first_sets(rg);
  bool any_ambiguous = false, any_member = false; uint64_t oh = 0;
  for (int prefix = 0; prefix < 2; prefix++) {
    Theo::SemanticGrammar<std::string> sg; std::vector<Theo::Grammar::Symbol> nts; for (int i = 0; i < NNT; i++) nts.push_back(sg.createNonTerminal()); auto A = nts[0];
    for (size_t i = 0; i < c.rules.size(); i++) {
      std::vector<Theo::Grammar::Symbol> rhs; for (int s : c.rules[i].second) rhs.push_back(s < 10 ? nts[s] : Theo::Grammar::Symbol::Terminal(s - 10));
      int idx = (int)i;
      sg.add(std::make_pair(nts[c.rules[i].first], rhs), [idx](std::vector<std::string> v) { std::string o = "r" + std::to_string(idx) + "("; for (size_t k = 0; k < v.size(); k++) { if (k) o += ","; o += v[k]; } return o + ")"; });
    }
    Theo::LRParser<std::string, int> p(sg, prefix != 0, [](int t) { return Theo::Grammar::Symbol::Terminal(t); }, [](int t) { return "t" + std::to_string(t); }, A, Theo::Grammar::Symbol::Terminal(0));
    auto gen = p.generateParseTables();
    // FIRST sets
    if (prefix == 0) for (int X = 0; X < NNT; X++) {
      std::set<int> got; bool geps = false; auto it = p.G.first_sets.find(nts[X]);
      if (it != p.G.first_sets.end()) for (auto &s : it->second) { if (s.t == Theo::Grammar::Symbol::TERMINAL) got.insert(s.index); else if (s.t == Theo::Grammar::Symbol::EPSILON) geps = true; }
      if (got != rf.first[X] || geps != rf.nullable[X]) { st.violation(key, std::string("FIRST(") + std::string(1, "ABCDEFGH"[X]) + ") differs from the textbook definition: terminals " + vf::jarr_num(std::vector<int>(got.begin(), got.end())) + (geps ? "+eps" : "") + ", expected " + vf::jarr_num(std::vector<int>(rf.first[X].begin(), rf.first[X].end())) + (rf.nullable[X] ? "+eps" : ""), cj); return; }
    }
    // all end-marked inputs over terminals 1..maxterm up to the length bound
    bool ambiguous_here = false;
    for (int len = 0; len <= g_maxlen; len++) {
      if (maxterm == 0 && len > 0) break;
      std::vector<int> ix(len, 1);
      for (;;) {
        std::vector<int> body(ix.begin(), ix.end()); reflr::Trees tr(rg, body);
        int count = 0, at = -1;
        if (prefix) { for (int j = 0; j <= len; j++) { int k = tr.cnt[0][0][j]; if (k) { count = std::min(2, count + k); if (at < 0) at = j; } } }
        else { count = tr.cnt[0][0][len]; at = len; }
        if (count >= 2) ambiguous_here = true; if (count >= 1) any_member = true;
        if (gen.empty()) {
          std::vector<int> in = body; in.push_back(0);
          auto res = p.parse(in); bool acc = res.t == res.ACCEPT;
          std::string ins = vf::jarr_num(in);
          if (acc != (count >= 1)) { st.violation(key, std::string(prefix ? "prefix" : "full") + " mode, input " + ins + ": parser " + (acc ? "accepts" : "rejects") + ", the grammar has " + std::to_string(count) + " derivation(s)", cj); return; }
          if (count >= 2) { st.violation(key, std::string(prefix ? "prefix" : "full") + " mode: no conflict reported but input " + ins + " has two derivations", cj); return; }
          if (acc) {
            std::string want = tr.fold(0, 0, at, [](int t) { return "t" + std::to_string(t); });
            if (res.st != want) { st.violation(key, std::string(prefix ? "prefix" : "full") + " mode, input " + ins + ": value " + res.st + ", fold of the unique tree " + want, cj); return; }
            oh = vf::mix(oh ^ vf::fnv(want));
          }
          st.add("parses_compared");
        }
        int i = 0; while (i < len && ++ix[i] > maxterm) ix[i++] = 1;
        if (i == len) break;
      }
    }
    if (ambiguous_here) { any_ambiguous = true; if (gen.empty()) { st.violation(key, std::string(prefix ? "prefix" : "full") + " mode: ambiguous grammar accepted without a conflict", cj); return; } }
    if (gen.empty()) st.add(prefix ? "conflict_free_prefix_mode" : "conflict_free_full_mode"); else st.add(prefix ? "conflicts_prefix_mode" : "conflicts_full_mode");
    // cross-check with the reference LR(1) construction (not part of the property's wording, reported as information)
    reflr::LRResult lr = reflr::lr1(rg, maxterm + 1, 0, prefix != 0);
    if ((lr.conflicts > 0) != !gen.empty()) st.add(prefix ? "reference_LR1_disagrees_on_conflict_prefix" : "reference_LR1_disagrees_on_conflict_full");
  }
  if (any_ambiguous) st.add("ambiguous_grammars"); if (any_member) st.nontrivial.insert(c.hash());
  st.outcomes.insert(oh);
  if (any_member && c.rules.size() >= 3) st.sample("{\"grammar\":" + vf::jstr(c.text()) + "}", 3);
}

// chain-shaped grammars over 4 non-terminals created top-down (user before used), one rule each, rhs over later
// non-terminals and one terminal: indirect nullable chains, the shapes the macro engine's slot grammar has
static Level fam_chains(bool full) {
  return {std::string("chain grammars(4 NT, one rule each, rhs<=2") + (full ? ", any NT)" : ", later NTs)"), [=](const CB &cb) {
            std::vector<std::vector<std::vector<int>>> opts(4);
            for (int i = 0; i < 4; i++) { std::vector<int> syms; for (int j = full ? 0 : i + 1; j < 4; j++) syms.push_back(j); syms.push_back(11);
              opts[i].push_back({}); for (int a : syms) { opts[i].push_back({a}); for (int b : syms) opts[i].push_back({a, b}); } }
            for (auto &r0 : opts[0]) for (auto &r1 : opts[1]) for (auto &r2 : opts[2]) for (auto &r3 : opts[3]) { Case c; c.rules = {{0, r0}, {1, r1}, {2, r2}, {3, r3}}; cb(c); } }};
}

// expression grammars with k kinds of brackets: E -> E + T | T ; T -> T * F | F ; F -> d | open_i E close_i  (i < k).
// Conflict-free, 40..280 LR(1) states: the table sizes the macro engine produces for patterns with several slots.
static Level fam_brackets(int maxk) {
  return {"bracket expression grammars k=1.." + std::to_string(maxk), [=](const CB &cb) {
            for (int k = 1; k <= maxk; k++) { Case c; c.rules = {{0, {0, 11, 1}}, {0, {1}}, {1, {1, 12, 2}}, {1, {2}}, {2, {13}}};
              for (int i = 0; i < k; i++) c.rules.push_back({2, {14 + 2 * i, 0, 15 + 2 * i}});
              cb(c); } }};
}

int main(int argc, char **argv) {
  drv::Args args = drv::Args::parse(argc, argv); bool T = args.thorough();
  if (args.prop != "C13") { fprintf(stderr, "ERROR: unknown property\n"); return 2; }
  if (args.part == "large") { g_maxlen = T ? 4 : 3; std::vector<Level> LL = {fam_brackets(T ? 10 : 8)}; return drv::run<Case>(args, LL, oracle_C13, {}, 300); }
  std::vector<Level> L = {fam_grammars(2, 2), fam_chains(false), fam_grammars(3, 2)};
  if (T) { g_maxlen = 5; L.push_back(fam_grammars(4, 2)); L.push_back(fam_chains(true)); L.push_back(fam_grammars(3, 3)); }
  return drv::run<Case>(args, L, oracle_C13, {}, 10);
}
