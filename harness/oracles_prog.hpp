// Oracles of the program-shaped properties C01 C03 C07 C08 C16 C19 C20 (and the acceptance oracle shared with C04).
// A case is always (file map, main name); everything else is re-derived from the text by the reference front end.
#pragma once
#include <sstream>
#include <functional>
#include <memory>

#include "real.hpp"
#include "ref_mac.hpp"
#include "ref_parse.hpp"
#include "ref_sem.hpp"

namespace orc {
using real::Files;
using Theo::OpCode;

struct An {  // analysis of one case
  Files files; std::string main;
  ref::ScanOut so; ref::FrontResult fr; bool scan_ok = false, ref_ok = false, macros = false;
  Theo::CodegenResult cr; bool compiled = false;
  std::string cj;  // case json
  An(const Files &f, const std::string &m) : files(f), main(m) {
    cj = real::case_json(files, main);
    so = ref::scan(files, main);
    scan_ok = so.errs.empty();
    if (scan_ok) {
      bool def = false; for (auto &t : so.toks) if (t.k == ref::DEFINE) def = true;
      if (def) { macros = true; fr = ref::front_with_macros(so.toks); }
      else fr = ref::front(so.toks);
    }
    ref_ok = scan_ok && fr.accept && !fr.excluded;
  }
  void compile() { if (!compiled) { cr = Theo::compile(files, main); compiled = true; } }
  std::string key() const { std::string k; for (auto &p : files) { k += p.first + "=" + p.second + "|"; } k += "main=" + main; for (auto &c : k) if (c == '\n') c = ' '; return k; }
};

inline uint64_t hash_frames(const std::vector<ref::FrameView> &fs) {
  uint64_t h = 1469598103934665603ULL;
  for (auto &f : fs) { h = vf::fnv(f.routine, h); for (auto &p : f.vars) { h = vf::fnv(p.first, h); h = vf::fnv(&p.second, sizeof p.second, h); } h = vf::mix(h); }
  return h;
}

// compare one activation's user view with the reference frame; "" if equal
inline std::string cmp_view(Theo::VM &vm, size_t k, const ref::FrameView &rf) {
  auto &acts = vm.getActivations();
  if (k >= acts.size()) return "activation " + std::to_string(k) + " missing";
  int mi = acts[k].debug_info;
  if (mi < 0 || mi >= (int)vm.code.stack_maps.size()) return "activation " + std::to_string(k) + " has stack map index " + std::to_string(mi);
  if (vm.code.stack_maps[mi].func_name != rf.routine) return "activation " + std::to_string(k) + " is '" + vm.code.stack_maps[mi].func_name + "', expected '" + rf.routine + "'";
  auto view = real::user_view(acts[k]);
  for (auto &p : rf.vars) {
    if (!real::is_user_name(p.first)) continue;  // macro temporaries are hidden from the user view
    auto it = view.find(p.first);
    if (it == view.end()) return "variable " + p.first + " of " + rf.routine + " missing from the view (expected " + std::to_string(p.second) + ")";
    if (it->second != p.second) return "variable " + p.first + " of " + rf.routine + " = " + std::to_string(it->second) + ", expected " + std::to_string(p.second);
  }
  for (auto &p : view) if (!rf.vars.count(p.first) && p.second != 0) return "unmentioned variable " + p.first + " of " + rf.routine + " = " + std::to_string(p.second);
  return "";
}

// ---------------------------------------------------------------------------------------------------------------- C01
static const long long SEM_BUDGET = 20000;

inline void oracle_C01(An &a, vf::Stats &st) {
  st.add("cases");
  if (!a.ref_ok) { st.add(a.scan_ok && a.fr.excluded ? "skipped_excluded" : "skipped_ref_rejects"); return; }
  a.compile();
  if (!a.cr.generated_correctly) { st.add("impl_rejects_ref_accepts(C04)"); return; }
  ref::Sem sem(a.fr.prog, SEM_BUDGET, false); ref::SemResult &r = sem.go();
  if (r.outside) { st.add("skipped_jump_into_counting_loop"); return; }
  if (r.big) { st.add("skipped_values_reach_2^31-1"); return; }
  if (a.fr.prog.defs.empty() && r.finished) {
    // the reference interpreter is itself cross-checked against a direct recursive definition on the structured fragment
    ref::Denote d(200000); d.seq(a.fr.prog.main);
    if (d.applicable && !d.out_of_fuel) {
      for (auto &p : r.final_frames[0].vars) if (d.env[p.first] != p.second) { fprintf(stderr, "ERROR: the two reference semantics disagree on %s (%lld vs %lld) for %s\n", p.first.c_str(), d.env[p.first], p.second, a.key().c_str()); exit(2); }
      st.add("reference_cross_checked_with_second_semantics");
    }
  }
  Theo::VM vm(a.cr.code);
  long long budget = r.finished ? 64 * r.steps + 64 : SEM_BUDGET, n = 0;
  while (!vm.isDone() && n < budget) { vm.executeSingle(); n++; }
  st.nontrivial.insert(vf::fnv(a.cj));
  if (!r.finished) {
    st.add("diverging_or_long");
    if (vm.isDone()) st.violation(a.key(), "reference execution needs more than " + std::to_string(SEM_BUDGET) + " steps but the VM halted after " + std::to_string(n) + " instructions", a.cj);
    return;
  }
  st.add("finished"); if (r.stopped_by_stop) st.add("ended_by_STOP"); if (r.final_frames.size() > 1) st.add("stopped_inside_callee");
  if (r.jumps_into_body) st.add("jumped_into_loop_body"); if (r.calls) st.add("with_calls");
  if (a.macros) st.add("with_user_macros");
  if (!vm.isDone()) { st.violation(a.key(), "reference finishes in " + std::to_string(r.steps) + " steps, VM still running after " + std::to_string(n) + " instructions", a.cj); return; }
  st.outcomes.insert(hash_frames(r.final_frames));
  if (vm.getActivations().size() != r.final_frames.size()) {
    st.violation(a.key(), "live activations: VM " + std::to_string(vm.getActivations().size()) + ", reference " + std::to_string(r.final_frames.size()), a.cj); return; }
  for (size_t k = 0; k < r.final_frames.size(); k++) {
    std::string d = cmp_view(vm, k, r.final_frames[k]);
    if (!d.empty()) { st.violation(a.key(), "final state: " + d, a.cj); return; }
  }
  if (n <= 4000) {
    // the same machine used the way an interpreter session uses it: the location is polled after every instruction, the
    // finished machine is reset and the program run again - the second run computes the same
    vm.getCurrentBreak(); vm.reset(); long long m = 0;
    while (!vm.isDone() && m < budget) { vm.executeSingle(); vm.getCurrentBreak(); m++; }
    if (!vm.isDone() || m != n) { st.violation(a.key(), "run again on the same machine after reset() (location polled after every instruction): " + std::string(vm.isDone() ? "halts" : "still running") + " after " + std::to_string(m) + " instructions, the first run took " + std::to_string(n), a.cj); return; }
    for (size_t k = 0; k < r.final_frames.size(); k++) {
      std::string d = cmp_view(vm, k, r.final_frames[k]);
      if (!d.empty()) { st.violation(a.key(), "run again on the same machine after reset() (location polled after every instruction): final state: " + d, a.cj); return; }
    }
    st.add("rerun_after_reset_compared");
  }
  st.sample("{\"source\":" + vf::jmap(a.files) + ",\"final_root_x0\":" + std::to_string(r.final_frames[0].vars.count("x0") ? r.final_frames[0].vars.at("x0") : 0) + "}", 3);
}

// ---------------------------------------------------------------------------------------------------------------- C03
inline const char *opname_(OpCode o) { return real::opname(o); }
struct Ext { int start, end; };
inline std::vector<Ext> routine_extents(const std::vector<Theo::Instruction> &c) {
  std::vector<Ext> r; size_t i = 1;
  while (i < c.size() && c[i].op == OpCode::JMP) {
    int off = c[i].parameters.jmp.offset;
    if (off < 2 || i + off > c.size() || c[i + off - 1].op != OpCode::RET) break;
    r.push_back({(int)i + 1, (int)i + off}); i += off;
  }
  return r;
}
inline int routine_of(const std::vector<Ext> &e, int pc) { for (size_t i = 0; i < e.size(); i++) if (pc >= e[i].start && pc < e[i].end) return (int)i; return -1; }

// static well-formedness over every abstract path; returns "" or the first defect
inline std::string static_wellformed(const Theo::Program &P, const ref::Prog *src, long long *nstates = nullptr, long long *ntrans = nullptr) {
  const auto &c = P.code; int n = (int)c.size();
  auto S = [](long long x) { return std::to_string(x); };
  if (n < 2) return "program shorter than PREPARE+HALT";
  if (c[0].op != OpCode::PREPARE_EXEC) return "code[0] is not the root PREPARE";
  if (c[n - 1].op != OpCode::HALT) return "last instruction is not HALT";
  int nmaps = (int)P.stack_maps.size();
  std::vector<Ext> ext = routine_extents(c);
  // The "JMP over body RET" layout is how routines are found today. If a (legitimate) change of the generator lays code
  // out differently the layout-specific checks are skipped instead of being reported: routines are then identified by
  // their EXEC entry only and the jump-containment rule is not evaluated.
  bool layout_known = !(src && ext.size() != src->defs.size());
  if (!layout_known) ext.clear();
  std::map<int, int> start_to_routine; for (size_t i = 0; i < ext.size(); i++) start_to_routine[ext[i].start] = (int)i;
  if (!layout_known) { int k = 0; for (int i = 0; i < n; i++) if (c[i].op == OpCode::EXEC && !start_to_routine.count(c[i].parameters.exec.entry)) start_to_routine[c[i].parameters.exec.entry] = k++; }
  // syntactic call sequences
  std::map<int, std::pair<int, int>> routine_frame;  // routine -> (count,index)
  for (int i = 0; i < n; i++) {
    if (c[i].op == OpCode::PREPARE_EXEC) {
      int cnt = c[i].parameters.prepare.count, idx = c[i].parameters.prepare.index;
      if (cnt < 0) return "PREPARE@" + S(i) + " count " + S(cnt);
      if (idx < 0 || idx >= nmaps) return "PREPARE@" + S(i) + " stack map index " + S(idx) + " of " + S(nmaps);
      for (auto &m : P.stack_maps[idx].map) if (m.first < 0 || m.first >= cnt) return "stack map " + S(idx) + " names register " + S(m.first) + " but the frame has " + S(cnt);
      if (i == 0) continue;
      int j = i + 1, k = 0;
      while (j < n && c[j].op == OpCode::ARG) { if (c[j].parameters.arg.target != k) return "ARG@" + S(j) + " target " + S(c[j].parameters.arg.target) + ", expected " + S(k); j++; k++; }
      if (j >= n || c[j].op != OpCode::EXEC) return "PREPARE@" + S(i) + " not followed by ARG* EXEC";
      int entry = c[j].parameters.exec.entry;
      if (!start_to_routine.count(entry)) return "EXEC@" + S(j) + " enters " + S(entry) + ", not the first instruction of a routine";
      int r = start_to_routine[entry];
      if (routine_frame.count(r) && routine_frame[r] != std::make_pair(cnt, idx)) return "calls of routine " + S(r) + " disagree on frame (count,index)";
      routine_frame[r] = {cnt, idx};
      if (src && layout_known && (int)src->defs[r].params.size() != k) return "call@" + S(i) + " passes " + S(k) + " ARGs, definition '" + src->defs[r].name + "' has " + S(src->defs[r].params.size()) + " parameters";
      if (k > cnt) return "call@" + S(i) + " passes " + S(k) + " ARGs into a frame of " + S(cnt);
      if (src && layout_known && P.stack_maps[idx].func_name != src->defs[r].name) return "call@" + S(i) + " uses stack map of '" + P.stack_maps[idx].func_name + "' for routine '" + src->defs[r].name + "'";
    } else if (c[i].op == OpCode::EXEC) {
      int j = i - 1; while (j > 0 && c[j].op == OpCode::ARG) j--;
      if (c[j].op != OpCode::PREPARE_EXEC || j == 0) return "EXEC@" + S(i) + " without PREPARE";
    } else if (c[i].op == OpCode::ARG) {
      int j = i - 1; while (j > 0 && c[j].op == OpCode::ARG) j--;
      if (c[j].op != OpCode::PREPARE_EXEC || j == 0) return "ARG@" + S(i) + " without PREPARE";
    }
  }
  // abstract exploration: state = (pc, stack of (prepare site, return address))
  struct Fr { int site, ret; };
  struct St { int pc; std::vector<Fr> stk; };
  std::set<std::vector<int>> seen; std::vector<St> work; work.push_back({0, {}});
  long long states = 0, trans = 0; size_t maxdepth = ext.size() + 2;
  auto keyof = [](const St &s) { std::vector<int> k = {s.pc}; for (auto &f : s.stk) { k.push_back(f.site); k.push_back(f.ret); } return k; };
  while (!work.empty()) {
    St s = work.back(); work.pop_back();
    if (!seen.insert(keyof(s)).second) continue;
    states++;
    if (states > 2000000) return "abstract state space exceeds 2e6 states";
    int pc = s.pc;
    if (pc < 0 || pc >= n) return "control reaches index " + S(pc) + " outside the code";
    const Theo::Instruction &in = c[pc]; int rt = routine_of(ext, pc);
    auto frame = [&](size_t fromtop) -> int { return c[s.stk[s.stk.size() - 1 - fromtop].site].parameters.prepare.count; };
    auto reg = [&](int r, size_t fromtop, const char *what) -> std::string {
      if (s.stk.size() <= fromtop) return std::string(opname_(in.op)) + "@" + std::to_string(pc) + " needs " + std::to_string(fromtop + 1) + " activations";
      if (r < 0 || r >= frame(fromtop)) return std::string(opname_(in.op)) + "@" + std::to_string(pc) + " " + what + " register " + std::to_string(r) + " outside frame of " + std::to_string(frame(fromtop));
      return ""; };
    auto next = [&](int npc, bool same_routine) -> std::string {
      if (npc < 0 || npc >= n) return std::string(opname_(in.op)) + "@" + std::to_string(pc) + " continues at " + std::to_string(npc) + " outside the code";
      if (same_routine && layout_known && routine_of(ext, npc) != rt) return std::string(opname_(in.op)) + "@" + std::to_string(pc) + " (routine " + std::to_string(rt) + ") continues at " + std::to_string(npc) + " (routine " + std::to_string(routine_of(ext, npc)) + ")";
      St t = s; t.pc = npc; work.push_back(t); trans++; return ""; };
    std::string e;
    switch (in.op) {
      case OpCode::POTENTIAL_BREAK: case OpCode::BREAK: e = next(pc + 1, true); break;
      case OpCode::HALT: break;
      case OpCode::ADD_CONST: if ((e = reg(in.parameters.add.target, 0, "target")).empty() && (e = reg(in.parameters.add.source, 0, "source")).empty()) e = next(pc + 1, true); break;
      case OpCode::TEST: if ((e = reg(in.parameters.test.target, 0, "target")).empty() && (e = reg(in.parameters.test.op1, 0, "op1")).empty() && (e = reg(in.parameters.test.op2, 0, "op2")).empty()) e = next(pc + 1, true); break;
      case OpCode::CONST: if ((e = reg(in.parameters.constant.target, 0, "target")).empty()) e = next(pc + 1, true); break;
      case OpCode::JMP: e = next(pc + in.parameters.jmp.offset, true); break;
      case OpCode::JMPC: if ((e = reg(in.parameters.jmpc.source, 0, "source")).empty() && (e = next(pc + in.parameters.jmpc.offset, true)).empty()) e = next(pc + 1, true); break;
      case OpCode::PREPARE_EXEC: {
        if (pc != 0 && !(e = reg(in.parameters.prepare.target, 0, "return target")).empty()) break;
        if (s.stk.size() >= maxdepth + 1) { if (nstates) *nstates = -1; break; }  // deeper than the number of routines: left to C16
        St t = s; t.pc = pc + 1; t.stk.push_back({pc, -1}); work.push_back(t); trans++; break; }
      case OpCode::ARG: if ((e = reg(in.parameters.arg.target, 0, "target")).empty() && (e = reg(in.parameters.arg.source, 1, "source")).empty()) e = next(pc + 1, true); break;
      case OpCode::EXEC: {
        if (s.stk.size() < 2) { e = "EXEC@" + S(pc) + " with fewer than two activations"; break; }
        int entry = in.parameters.exec.entry; if (entry < 0 || entry >= n) { e = "EXEC@" + S(pc) + " entry " + S(entry); break; }
        St t = s; t.pc = entry; t.stk.back().ret = pc + 1; work.push_back(t); trans++; break; }
      case OpCode::RET: {
        if (rt < 0 && layout_known) { e = "RET@" + S(pc) + " outside any routine"; break; }
        if (s.stk.size() < 2) { e = "RET@" + S(pc) + " with fewer than two activations"; break; }
        if (!(e = reg(in.parameters.ret.source, 0, "source")).empty()) break;
        int tgt = c[s.stk.back().site].parameters.prepare.target;
        if (tgt < 0 || tgt >= frame(1)) { e = "RET@" + S(pc) + " return target " + S(tgt) + " outside caller frame of " + S(frame(1)); break; }
        St t = s; t.pc = s.stk.back().ret; t.stk.pop_back();
        if (t.pc < 0 || t.pc >= n) { e = "RET@" + S(pc) + " returns to " + S(t.pc); break; }
        work.push_back(t); trans++; break; }
      default: e = "unknown opcode " + S((int)in.op) + " @" + S(pc);
    }
    if (!e.empty()) return e;
  }
  if (nstates && *nstates != -1) *nstates = states;
  if (ntrans) *ntrans = trans;
  return "";
}

// dynamic check of the instruction about to execute against the live frames; "" if in bounds
inline std::string dynamic_inbounds(Theo::VM &vm) {
  int pc = vm.instruction_pointer; int n = (int)vm.code.code.size();
  auto S = [](long long x) { return std::to_string(x); };
  if (pc < 0 || pc >= n) return "instruction pointer " + S(pc) + " outside the code";
  const Theo::Instruction &in = vm.code.code[pc];
  auto &stk = vm.stack;
  for (auto &a : stk) if (a.data_start < 0 || a.seg_size < 0 || (size_t)(a.data_start + a.seg_size) > vm.data.size()) return "activation frame [" + S(a.data_start) + "," + S(a.data_start + a.seg_size) + ") outside data of " + S(vm.data.size());
  auto reg = [&](int r, size_t fromtop) -> std::string {
    if (stk.size() <= fromtop) return std::string(real::opname(in.op)) + "@" + S(pc) + " executed with " + S(stk.size()) + " activations";
    auto &a = stk[stk.size() - 1 - fromtop];
    if (r < 0 || r >= a.seg_size) return std::string(real::opname(in.op)) + "@" + S(pc) + " register " + S(r) + " outside live frame of " + S(a.seg_size);
    return ""; };
  std::string e;
  switch (in.op) {
    case OpCode::ADD_CONST: if ((e = reg(in.parameters.add.target, 0)).empty()) e = reg(in.parameters.add.source, 0); break;
    case OpCode::TEST: if ((e = reg(in.parameters.test.target, 0)).empty() && (e = reg(in.parameters.test.op1, 0)).empty()) e = reg(in.parameters.test.op2, 0); break;
    case OpCode::CONST: e = reg(in.parameters.constant.target, 0); break;
    case OpCode::JMPC: e = reg(in.parameters.jmpc.source, 0); break;
    case OpCode::ARG: if ((e = reg(in.parameters.arg.target, 0)).empty()) e = reg(in.parameters.arg.source, 1); break;
    case OpCode::RET: if ((e = reg(in.parameters.ret.source, 0)).empty() && stk.size() >= 2) e = reg(stk.back().ret_target, 1); else if (stk.size() < 2 && e.empty()) e = "RET with " + S(stk.size()) + " activations";
      if (e.empty() && (stk.back().ret_addr < 0 || stk.back().ret_addr >= n)) e = "RET to " + S(stk.back().ret_addr);
      break;
    case OpCode::EXEC: if (stk.empty()) e = "EXEC without activation"; else if (in.parameters.exec.entry < 0 || in.parameters.exec.entry >= n) e = "EXEC entry " + S(in.parameters.exec.entry); break;
    case OpCode::PREPARE_EXEC: if (in.parameters.prepare.count < 0) e = "PREPARE count " + S(in.parameters.prepare.count);
      else if (in.parameters.prepare.index < 0 || in.parameters.prepare.index >= (int)vm.code.stack_maps.size()) e = "PREPARE stack map " + S(in.parameters.prepare.index); break;
    case OpCode::JMP: { int t = pc + in.parameters.jmp.offset; if (t < 0 || t >= n) e = "JMP to " + S(t); break; }
    default: break;
  }
  if (e.empty() && in.op == OpCode::JMPC) { int t = pc + in.parameters.jmpc.offset; if (t < 0 || t >= n) e = "JMPC to " + S(t); }
  return e;
}

inline void oracle_C03(An &a, vf::Stats &st) {
  st.add("cases");
  a.compile();
  if (!a.cr.generated_correctly) { st.add("not_compiled"); return; }
  st.add("programs");
  st.nontrivial.insert(vf::fnv(real::disasm(a.cr.code)));
  long long ns = 0, nt = 0;
  std::string e = static_wellformed(a.cr.code, a.ref_ok ? &a.fr.prog : nullptr, &ns, &nt);
  if (ns > 0) { st.add("states", ns); st.add("transitions", nt); } else st.add("depth_capped");
  if (a.scan_ok && a.fr.excluded) st.add("unusual_declarations");
  if (!e.empty()) { st.violation(a.key(), "static: " + e + " | " + real::disasm(a.cr.code), a.cj); return; }
  // dynamic cross-check on the executed path
  Theo::VM vm(a.cr.code); long long n = 0;
  while (n < 20000) {
    std::string d = dynamic_inbounds(vm);
    if (!d.empty()) { st.violation(a.key(), "static check passed but the executed path is out of bounds: " + d, a.cj); return; }
    if (vm.isDone()) break;
    vm.executeSingle(); n++;
  }
  st.add("traces_validated"); st.add("executed_instructions", n);
  st.outcomes.insert(vf::mix(ns * 1000003 + nt));
  st.sample("{\"source\":" + vf::jmap(a.files) + ",\"code\":" + vf::jstr(real::disasm(a.cr.code)) + ",\"abstract_states\":" + std::to_string(ns) + "}", 2);
}

// ---------------------------------------------------------------------------------------------------------------- C07
inline void oracle_C07(An &a, vf::Stats &st, size_t cap = 400) {
  st.add("cases");
  if (!a.ref_ok || a.macros) { st.add("skipped_ref_rejects_or_excluded"); return; }
  a.compile();
  if (!a.cr.generated_correctly) { st.add("impl_rejects_ref_accepts(C04)"); return; }
  ref::Sem sem(a.fr.prog, 200000, true, cap); ref::SemResult &r = sem.go();
  if (r.outside) { st.add("skipped_jump_into_counting_loop"); return; }
  if (r.big) { st.add("skipped_values_reach_2^31-1"); return; }
  st.nontrivial.insert(vf::fnv(a.cj));
  Theo::VM vm(a.cr.code); size_t i = 0; long long instr = 0; uint64_t th = 0;
  // session 0: a new machine; session 1: the same machine after reset() (wherever session 0 left it: at the end, or in the
  // middle of the run when the comparison stopped at the cap) - an interpreter session steps through a program repeatedly
  for (int session = 0; session < 2; session++) {
  std::string S2 = session ? "second stepping session on the same machine after reset(): " : "";
  if (session) vm.reset();
  vm.setSteppingMode(true); i = 0; uint64_t th1 = 0;
  for (;;) {
    if (vm.isDone()) break;
    long long guard = 0; bool stopped = false;
    while (guard++ < 100000) { instr++; if (vm.executeSingle()) { stopped = true; break; } }
    if (!stopped) { st.violation(a.key(), S2 + "stepping: no stop within 100000 instructions after stop " + std::to_string(i), a.cj); return; }
    Theo::BreakPoint bp = vm.getCurrentBreak();
    if (bp.line == -1) continue;  // end of program
    if (i >= r.trace.size()) {
      if (r.trace_cut || !r.finished) break;  // prefix compared
      st.violation(a.key(), S2 + "stepping: extra stop " + std::to_string(i) + " at " + bp.file + ":" + std::to_string(bp.line) + ", reference trace has " + std::to_string(r.trace.size()) + " stops", a.cj); return;
    }
    const ref::StopRec &e = r.trace[i];
    if (bp.file == "__standards__") { st.violation(a.key(), S2 + "stepping: stop " + std::to_string(i) + " inside the hidden standard-macro file", a.cj); return; }
    if (bp.file != e.pos.file || bp.line != e.pos.line) {
      st.violation(a.key(), S2 + "stepping: stop " + std::to_string(i) + " at " + bp.file + ":" + std::to_string(bp.line) + ", expected " + e.pos.file + ":" + std::to_string(e.pos.line), a.cj); return; }
    if (vm.getActivations().size() != e.frames.size()) { st.violation(a.key(), S2 + "stepping: stop " + std::to_string(i) + " at " + bp.file + ":" + std::to_string(bp.line) + " has " + std::to_string(vm.getActivations().size()) + " activations, expected " + std::to_string(e.frames.size()), a.cj); return; }
    for (size_t k = 0; k < e.frames.size(); k++) {
      std::string d = cmp_view(vm, k, e.frames[k]);
      if (!d.empty()) { st.violation(a.key(), S2 + "stepping: stop " + std::to_string(i) + " at " + bp.file + ":" + std::to_string(bp.line) + ": " + d, a.cj); return; }
    }
    th1 = vf::mix(th1 ^ vf::fnv(bp.file) ^ (uint64_t)bp.line * 0x9e3779b97f4a7c15ULL ^ hash_frames(e.frames));
    i++;
    if (i >= cap) break;
  }
  if (i < r.trace.size() && !(i >= cap)) {
    if (vm.isDone()) { st.violation(a.key(), S2 + "stepping: run ended after " + std::to_string(i) + " stops, reference has " + std::to_string(r.trace.size()) + (r.trace_cut ? "+" : "") + "; next expected " + r.trace[i].pos.file + ":" + std::to_string(r.trace[i].pos.line), a.cj); return; }
  }
  if (session == 0) th = th1; else { if (th1 != th) { st.violation(a.key(), S2 + "the stops and views differ from those of the first session", a.cj); return; } st.add("second_session_after_reset_compared"); }
  }
  st.add("stops_compared", (long long)i); st.max("stops", (long long)i); st.outcomes.insert(th);
  if (r.trace_cut || !r.finished) st.add("compared_on_prefix");
  if (r.calls) st.add("with_calls"); if (a.files.size() > 1) st.add("multi_file");
  if (i >= 3) st.sample("{\"source\":" + vf::jmap(a.files) + ",\"stops\":" + std::to_string(i) + ",\"first_stop\":" + vf::jstr(r.trace[0].pos.file + ":" + std::to_string(r.trace[0].pos.line)) + "}", 2);
}

// ---------------------------------------------------------------------------------------------------------------- C08
inline void oracle_C08(An &a, vf::Stats &st) {
  st.add("cases");
  if (a.macros) {
    // the same sources compiled just before from other files and lines (every file that defines a macro is renamed and
    // shifted down two lines): whatever is remembered from that compilation must not leak into the tables of this one
    Files sib; std::map<std::string, std::string> ren;
    for (auto &f : a.files) if (f.first != a.main && f.second.find("DEFINE") != std::string::npos) ren[f.first] = f.first + "_other";
    for (auto &f : a.files) { std::string body = f.second; for (auto &r : ren) { size_t p; while ((p = body.find("\"" + r.first + "\"")) != std::string::npos) body.replace(p, r.first.size() + 2, "\"" + r.second + "\""); }
      if (ren.count(f.first)) sib[ren[f.first]] = "\n\n" + body; else sib[f.first] = (f.first == a.main && body.find("DEFINE") != std::string::npos) ? "\n\n" + body : body; }
    Theo::CodegenResult other = Theo::compile(sib, a.main); (void)other; st.add("compiled_after_a_sibling_compilation");
  }
  a.compile();
  if (!a.cr.generated_correctly) { st.add("not_compiled"); return; }
  const Theo::Program &P = a.cr.code; auto S = [](long long x) { return std::to_string(x); };
  std::string e;
  std::set<int> listed;
  for (auto &pb : P.potential_breaks) {
    const Theo::BreakPoint &loc = pb.first;
    if (pb.second.empty()) { e = "location " + loc.file + ":" + S(loc.line) + " has an empty site list"; break; }
    std::set<int> u(pb.second.begin(), pb.second.end());
    if (u.size() != pb.second.size()) { e = "location " + loc.file + ":" + S(loc.line) + " lists a site twice"; break; }
    for (int s : pb.second) {
      auto it = P.line_info.find(s);
      if (it == P.line_info.end()) { e = "site " + S(s) + " of " + loc.file + ":" + S(loc.line) + " missing from the site->location table"; break; }
      if (it->second.file != loc.file || it->second.line != loc.line) { e = "site " + S(s) + " listed under " + loc.file + ":" + S(loc.line) + " but maps back to " + it->second.file + ":" + S(it->second.line); break; }
      if (s < 0 || s >= (int)P.code.size() || (P.code[s].op != OpCode::POTENTIAL_BREAK)) { e = "site " + S(s) + " is not a POTENTIAL_BREAK instruction"; break; }
      listed.insert(s);
    }
    if (!e.empty()) break;
    if (loc.file == "__standards__") { e = "location in the hidden standard-macro file"; break; }
    auto f = a.files.find(loc.file);
    if (f == a.files.end()) { e = "location names file '" + loc.file + "' which was not supplied"; break; }
    bool tok = false; for (auto &t : ref::lex(f->second, loc.file)) if (t.line == loc.line) tok = true;
    if (!tok) { e = "location " + loc.file + ":" + S(loc.line) + " is not a line holding a token"; break; }
  }
  if (e.empty()) for (auto &li : P.line_info) {
    auto it = P.potential_breaks.find(li.second);
    if (it == P.potential_breaks.end() || std::find(it->second.begin(), it->second.end(), li.first) == it->second.end()) {
      e = "site " + S(li.first) + " -> " + li.second.file + ":" + S(li.second.line) + " is not listed in the location->sites table"; break; }
  }
  if (e.empty()) for (size_t i = 0; i < P.code.size(); i++)
    if ((P.code[i].op == OpCode::POTENTIAL_BREAK || P.code[i].op == OpCode::BREAK) && !listed.count((int)i)) { e = "breakpoint instruction " + S(i) + " is not listed"; break; }
  if (e.empty()) {
    Theo::Program copy = P; auto av = copy.getAvailableBreakpoints(); std::set<std::pair<std::string, int>> A, B;
    for (auto &b : av) A.insert({b.file, b.line}); for (auto &li : P.line_info) B.insert({li.second.file, li.second.line});
    if (A != B) e = "available locations (" + S(A.size()) + ") differ from the locations stepping can report (" + S(B.size()) + ")";
    st.max("locations", (long long)A.size());
  }
  if (e.empty()) {
    // the read-only operations of a Program (printing it, listing its breakpoints) leave the tables as they are: a front
    // end prints the code before it builds the machine
    auto tables = [&](const Theo::Program &q) { std::string t; for (auto &pb : q.potential_breaks) { t += pb.first.file + ":" + S(pb.first.line) + "["; for (int i : pb.second) t += S(i) + ","; t += "]"; } t += "|"; for (auto &li : q.line_info) t += S(li.first) + "=" + li.second.file + ":" + S(li.second.line) + ","; t += "|" + S(q.code.size()); return t; };
    Theo::Program used = P; std::ostringstream os; used.disassemble(os); used.getAvailableBreakpoints();
    if (tables(used) != tables(P)) e = "printing the program (disassemble) or listing its breakpoints changed its breakpoint tables: " + S(used.line_info.size()) + " site entries afterwards, " + S(P.line_info.size()) + " before";
    else st.add("tables_unchanged_by_observers");
  }
  st.add("programs"); st.add("sites", (long long)P.line_info.size());
  std::string shape; for (auto &pb : P.potential_breaks) shape += pb.first.file + ":" + S(pb.first.line) + "x" + S(pb.second.size()) + ",";
  st.outcomes.insert(vf::fnv(shape));
  bool multi = false; for (auto &pb : P.potential_breaks) if (pb.second.size() > 1) multi = true;
  if (multi) { st.add("with_multi_site_line"); }
  st.nontrivial.insert(vf::fnv(a.cj));
  if (!e.empty()) { st.violation(a.key(), e, a.cj); return; }
  if (multi) st.sample("{\"source\":" + vf::jmap(a.files) + ",\"tables\":" + vf::jstr(shape) + "}", 2);
}

// ---------------------------------------------------------------------------------------------------------------- C16
inline void oracle_C16(An &a, vf::Stats &st) {
  st.add("cases");
  if (!a.scan_ok || a.fr.excluded) { st.add("skipped_excluded"); return; }
  a.compile();
  st.nontrivial.insert(vf::fnv(a.cj));
  if (a.macros) st.add("with_user_macros");
  bool unknown = false; for (auto &e : a.cr.errors) if (e.t == Theo::CodegenResult::Error::Type::UNKNOWN_PROGRAM_NAME) unknown = true;
  bool ref_unknown = !a.fr.accept && a.fr.why.rfind("unknown program", 0) == 0;
  if (a.fr.accept != a.cr.generated_correctly) {
    st.violation(a.key(), std::string("reference ") + (a.fr.accept ? "accepts" : "rejects (" + a.fr.why + ")") + ", compiler " + (a.cr.generated_correctly ? "accepts" : "rejects"), a.cj); return; }
  if (ref_unknown) { st.add("rejected_self_forward_or_mutual_reference"); if (!unknown) { st.violation(a.key(), "call of a program that is not complete earlier rejected without an unknown-program error", a.cj); } return; }
  if (!a.fr.accept) { st.add("rejected_other"); return; }
  // call graph from EXEC targets: edges only to routines that start earlier
  const auto &c = a.cr.code.code; std::vector<Ext> ext = routine_extents(c);
  bool layout_known = ext.size() == a.fr.prog.defs.size();  // otherwise the static call-graph check is skipped (see C03); the dynamic depth bound below still applies
  if (!layout_known) st.add("call_graph_not_checked(unknown code layout)");
  for (size_t i = 0; layout_known && i < c.size(); i++) if (c[i].op == OpCode::EXEC) {
    int from = routine_of(ext, (int)i), to = -2; for (size_t k = 0; k < ext.size(); k++) if (ext[k].start == c[i].parameters.exec.entry) to = (int)k;
    if (to == -2) { st.violation(a.key(), "EXEC@" + std::to_string(i) + " does not enter a routine", a.cj); return; }
    st.add("call_edges");
    if (from != -1 && to >= from) { st.violation(a.key(), "call graph edge from routine " + std::to_string(from) + " to " + std::to_string(to) + " (not an earlier routine): recursion possible", a.cj); return; }
  }
  ref::Sem sem(a.fr.prog, 200000, true, 2000); ref::SemResult &r = sem.go();
  if (r.big || r.outside) { st.add("skipped_outside_domain"); return; }
  bool looponly = !ref::uses_while_or_goto(a.fr.prog);
  Theo::VM vm(a.cr.code); vm.setSteppingMode(true);
  long long n = 0, budget = r.finished ? 64 * r.steps + 64 : 200000; size_t maxact = 0; std::map<std::pair<std::string, int>, long long> visits;
  while (!vm.isDone() && n < budget) {
    bool stop = vm.executeSingle(); n++;
    maxact = std::max(maxact, vm.getActivations().size());
    if (vm.getActivations().size() > a.fr.prog.defs.size() + 1) { st.violation(a.key(), "activation stack holds " + std::to_string(vm.getActivations().size()) + " activations with " + std::to_string(a.fr.prog.defs.size()) + " definitions", a.cj); return; }
    if (stop && !vm.isDone()) { auto bp = vm.getCurrentBreak(); if (bp.line != -1) visits[{bp.file, bp.line}]++; }
    else if (stop) { auto bp = vm.getCurrentBreak(); if (bp.line != -1 && vm.code.code[vm.instruction_pointer - 1].op != OpCode::HALT) visits[{bp.file, bp.line}]++; }
  }
  st.max("activations", (long long)maxact);
  if (looponly) {
    st.add("loop_only_programs");
    if (!r.finished) { st.violation(a.key(), "reference interpreter did not finish a WHILE/GOTO-free program (harness bug?)", a.cj); return; }
    if (!vm.isDone()) { st.violation(a.key(), "WHILE/GOTO-free program still running after " + std::to_string(n) + " instructions (reference: " + std::to_string(r.steps) + " steps)", a.cj); return; }
  }
  if (r.finished && vm.isDone()) {
    if (!r.trace_cut) {
      std::map<std::pair<std::string, int>, long long> rv; for (auto &t : r.trace) rv[{t.pos.file, t.pos.line}]++;
      bool oneperline = !a.macros;  // visit counts are only defined for one-statement-per-line sources without user macros
      { std::set<std::pair<std::string, int>> seen; for (auto &rt : sem.routines) for (auto &o : rt.ops) if (o.t == ref::Op::ASSIGN || o.t == ref::Op::STOP || o.t == ref::Op::GOTO || o.t == ref::Op::IF || o.t == ref::Op::LOOPHEAD || o.t == ref::Op::WHILEHEAD || o.t == ref::Op::ENDMARK || o.t == ref::Op::PROGEND) if (!seen.insert({o.pos.file, o.pos.line}).second) oneperline = false;
        for (auto &o : sem.mainr.ops) if (o.t != ref::Op::MAINEND && o.t != ref::Op::LOOPTEST && o.t != ref::Op::LOOPBACK && o.t != ref::Op::WHILETEST && o.t != ref::Op::JUMP) if (!seen.insert({o.pos.file, o.pos.line}).second) oneperline = false; }
      if (oneperline && rv != visits) {
        std::string d; for (auto &p : rv) if (visits[p.first] != p.second) { d = p.first.first + ":" + std::to_string(p.first.second) + " visited " + std::to_string(visits[p.first]) + " times, expected " + std::to_string(p.second); break; }
        if (d.empty()) for (auto &p : visits) if (!rv.count(p.first)) { d = p.first.first + ":" + std::to_string(p.first.second) + " visited but never by the reference"; break; }
        st.violation(a.key(), "iteration counts: " + d, a.cj); return; }
      if (oneperline) st.add("visit_counts_compared");
    }
    for (size_t k = 0; k < r.final_frames.size(); k++) { std::string d = cmp_view(vm, k, r.final_frames[k]); if (!d.empty()) { st.violation(a.key(), "final state (which definition was called?): " + d, a.cj); return; } }
    st.outcomes.insert(hash_frames(r.final_frames));
  }
  st.add("accepted_and_run");
  if (a.fr.prog.defs.size() >= 2) st.sample("{\"source\":" + vf::jmap(a.files) + ",\"max_activations\":" + std::to_string(maxact) + "}", 2);
}

// ---------------------------------------------------------------------------------------------------------------- C19
inline std::string frames_exact(Theo::VM &vm) {
  long long sum = 0; auto S = [](long long x) { return std::to_string(x); };
  for (size_t i = 0; i < vm.stack.size(); i++) {
    if (vm.stack[i].data_start != sum) return "activation " + S(i) + " starts at word " + S(vm.stack[i].data_start) + ", frames below it occupy " + S(sum);
    sum += vm.stack[i].seg_size;
  }
  if ((long long)vm.data.size() != sum) return "data memory holds " + S(vm.data.size()) + " words, live frames need " + S(sum) + " (" + S(vm.stack.size()) + " activations)";
  return "";
}
inline void oracle_C19(An &a, vf::Stats &st) {
  st.add("cases");
  a.compile();
  if (!a.cr.generated_correctly) { st.add("not_compiled"); return; }
  long long n = 0, calls = 0, n0 = 0, calls0 = 0; size_t maxact = 0, maxdata = 0; uint64_t h = 0, h0 = 0;
  // pass 0: free run; pass 1: a debugger front end inspects every live activation (and the break state) at every
  // instruction boundary - inspection is read-only, so the frames must stay exact and the run must be the same
  std::vector<uint64_t> trace;  // hash of (data words, frame count) after every instruction of the free run
  for (int pass = 0; pass < 2; pass++) {
    Theo::VM vm(a.cr.code); n = 0; calls = 0; h = 0;
    long long work = 0;  // the getter is quadratic in the frame width: the inspected pass covers the prefix of the run that 4M map insertions pay for
    while (n < 30000) {
      if (pass == 1) { for (auto &act : vm.getActivations()) { work += (long long)act.seg_size * (long long)vm.code.stack_maps[act.debug_info].map.size() + 1; act.getActivationVariables(); } vm.getCurrentBreak(); vm.getEnabledBreakPoints(); }
      std::string e = frames_exact(vm);
      if (!e.empty()) { st.violation(a.key(), std::string(pass ? "with every activation inspected at every step, " : "") + "after " + std::to_string(n) + " instructions (ip " + std::to_string(vm.instruction_pointer) + "): " + e, a.cj); return; }
      if (vm.isDone() || (pass == 1 && work > 4000000)) break;
      if (vm.code.code[vm.instruction_pointer].op == OpCode::EXEC) calls++;
      vm.executeSingle(); n++; maxact = std::max(maxact, vm.stack.size()); maxdata = std::max(maxdata, vm.data.size());
      h = vf::mix(h ^ (vm.data.size() * 31 + vm.stack.size())); for (int w : vm.data) h = vf::mix(h ^ (uint64_t)(unsigned)w);
      if (pass == 0) trace.push_back(h);
    }
    if (pass == 0) { n0 = n; calls0 = calls; h0 = h; }
    else {
      if (n > 0 && ((size_t)n > trace.size() || trace[n - 1] != h)) { st.violation(a.key(), "the run in which every activation is inspected at every step differs from the free run after " + std::to_string(n) + " instructions (data words / frame sizes)", a.cj); return; }
      st.add("inspected_states", n + 1); if (n == n0) st.add("programs_inspected_to_the_end");
    }
  }
  n = n0; calls = calls0; h = h0;
  st.add("states", n + 1); st.add("transitions", n); st.add("programs");
  if (calls) { st.add("programs_with_calls"); st.nontrivial.insert(vf::fnv(a.cj)); st.max("calls", calls); }
  st.max("activations", (long long)maxact); st.max("data_words", (long long)maxdata);
  st.outcomes.insert(h);
  if (calls >= 2) st.sample("{\"source\":" + vf::jmap(a.files) + ",\"instructions\":" + std::to_string(n) + ",\"calls\":" + std::to_string(calls) + ",\"max_data_words\":" + std::to_string(maxdata) + "}", 2);
}

// ---------------------------------------------------------------------------------------------------------------- C20
inline void oracle_C20(An &a, vf::Stats &st) {
  st.add("cases");
  a.compile();  // UBSan / ASan reports abort the worker and are turned into violations by the crash handler
  // literal range rule on the reference side
  bool lit_big = false, lit_seen = false; std::string biglit;
  if (a.scan_ok && !a.macros) for (auto &t : a.fr.toks) if (t.k == ref::INT) { lit_seen = true; if (ref::lit_value(t.text) >= ref::LIT_LIMIT) { lit_big = true; biglit = t.text; } }
  if (a.scan_ok && !a.macros && a.fr.accept == false && a.fr.why.rfind("literal out of range", 0) != 0) { st.add("rejected_for_other_reasons"); return; }
  if (a.scan_ok && !a.macros && !a.fr.excluded) {
    st.nontrivial.insert(vf::fnv(a.cj));
    if (lit_big) {
      st.add("literal_out_of_range");
      bool msg = false; for (auto &e : a.cr.errors) if (e.message.find("out of range") != std::string::npos) msg = true;
      if (a.cr.generated_correctly) { st.violation(a.key(), "literal " + biglit + " >= 2^31-1 accepted", a.cj); return; }
      if (!msg) { st.violation(a.key(), "literal " + biglit + " rejected without a range error", a.cj); return; }
      return;
    }
    if (a.fr.accept && !a.cr.generated_correctly) { bool msg = false; for (auto &e : a.cr.errors) if (e.message.find("out of range") != std::string::npos) msg = true;
      if (msg) { st.violation(a.key(), "range error although every literal is below 2^31-1", a.cj); return; } }
  }
  if (a.scan_ok && a.macros) {
    // macro headers: a priority (or an insertion index) that does not fit the word must be rejected with a range error
    for (size_t i = 0; i + 1 < a.so.toks.size(); i++) {
      bool prio = a.so.toks[i].k == ref::PRIORITY && a.so.toks[i + 1].k == ref::INT && ref::lit_value(a.so.toks[i + 1].text) >= ref::LIT_LIMIT;
      bool ins = a.so.toks[i].k == ref::INSERTION && ref::lit_value(a.so.toks[i].text.substr(1)) >= ref::LIT_LIMIT;
      if (!prio && !ins) continue;
      st.add("macro_header_number_out_of_range"); st.nontrivial.insert(vf::fnv(a.cj));
      bool msg = false; for (auto &e : a.cr.errors) if (e.message.find("out of range") != std::string::npos) msg = true;
      std::string which = prio ? "priority " + a.so.toks[i + 1].text : "insertion index " + a.so.toks[i].text;
      if (a.cr.generated_correctly) { st.violation(a.key(), which + " does not fit the word but the source is accepted", a.cj); return; }
      if (!msg) { st.violation(a.key(), which + " rejected without a range error", a.cj); return; }
    }
  }
  if (!a.cr.generated_correctly) { st.add("not_compiled"); return; }
  // every accepted literal must be stored exactly
  if (a.scan_ok && !a.macros) for (auto &t : a.fr.toks) if (t.k == ref::INT) {
    long long v = ref::lit_value(t.text); bool found = false;
    for (auto &in : a.cr.code.code) { if (in.op == OpCode::CONST && in.parameters.constant.constant == v) found = true; if (in.op == OpCode::ADD_CONST && (in.parameters.add.constant == v || in.parameters.add.constant == -v)) found = true; }
    if (!found) { st.violation(a.key(), "literal " + t.text + " does not appear in the emitted code", a.cj); return; }
  }
  std::vector<int> final1;
  for (int rep = 0; rep < 2; rep++) {
    Theo::VM vm(a.cr.code); long long n = 0;
    while (!vm.isDone() && n < 20000) {
      vm.executeSingle(); n++;
      for (size_t i = 0; i < vm.data.size(); i++) if (vm.data[i] < 0) { st.violation(a.key(), "data word " + std::to_string(i) + " = " + std::to_string(vm.data[i]) + " after " + std::to_string(n) + " instructions", a.cj); return; }
    }
    if (rep == 0) { final1 = vm.data; st.add("executed_instructions", n); long long mx = 0; for (int w : vm.data) mx = std::max<long long>(mx, w); st.max("value", mx); if (mx >= (1LL << 30)) st.add("runs_reaching_2^30"); }
    else if (final1 != vm.data) { st.violation(a.key(), "two runs of the same program end with different data", a.cj); return; }
  }
  { // resuming with execute() must compute the same words as instruction-by-instruction execution
    Theo::VM vm(a.cr.code); bool halts = false; { Theo::VM probe(a.cr.code); long long n = 0; while (!probe.isDone() && n < 20000) { probe.executeSingle(); n++; } halts = probe.isDone(); }
    if (halts) { vm.execute(); if (vm.data != final1) { st.violation(a.key(), "execute() ends with different data than executing the same program instruction by instruction", a.cj); return; } } }
  uint64_t h = 0; for (int w : final1) h = vf::mix(h ^ (uint64_t)w); st.outcomes.insert(h);
  st.add("programs_run");
  if (lit_seen) st.sample("{\"source\":" + vf::jmap(a.files) + "}", 2);
}

}  // namespace orc
