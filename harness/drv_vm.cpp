// Engine "vm": C05 C06 C17 (and the debugger-state part of C19) — explicit-state search to closure over the real
// Theo::VM under the debugger API, in lock-step with the reference debugger R-DBG.
//   real state  = every field of the VM (ip, stepping flag, all opcodes/operands of its private program copy, breakpoint
//                 tables, data, every field of every activation, enabled set), read with -fno-access-control
//   model state = (k, E, s): position in the uninterrupted run T, enabled locations, stepping flag
#include "driver_main.hpp"
#include "gen_layout.hpp"
#include "gen_prog.hpp"
#include "oracles_prog.hpp"

using real::Files;
using Theo::OpCode;

struct Case {
  Files files; std::string main; std::vector<std::string> history;  // history: only when replaying a recorded violation
  std::string json() const { return real::case_json(files, main); }
  uint64_t hash() const { uint64_t h = vf::fnv(main); for (auto &p : files) { h = vf::fnv(p.first, h); h = vf::fnv(p.second, h); } return h; }
  std::string key() const { std::string k; for (auto &p : files) k += p.first + "=" + p.second + "|"; k += "main=" + main; for (auto &c : k) if (c == '\n') c = ' '; return k; }
  static Case from(const vf::J &j) { Case c{j["files"].strmap(), j["main"].s, {}}; if (j.has("history")) for (auto &h : j["history"].a) c.history.push_back(h.s); return c; }
};
typedef std::function<void(const Case &)> CB;
typedef drv::Level<Case> Level;
static Case single(const std::string &src) { return {{{"main", src}}, "main", {}}; }

typedef std::pair<std::string, int> Loc;

// ---- full hidden state ------------------------------------------------------------------------------------------------
struct Exec { int ip; std::vector<int> data; std::vector<std::array<int, 5>> stack; bool operator==(const Exec &o) const { return ip == o.ip && data == o.data && stack == o.stack; } };
static Exec exec_of(Theo::VM &vm) {
  Exec e; e.ip = vm.instruction_pointer; e.data = vm.data;
  for (auto &a : vm.stack) e.stack.push_back({a.data_start, a.seg_size, a.ret_target, a.ret_addr, a.debug_info});
  return e;
}
static std::string canon(Theo::VM &vm) {
  std::string s; auto put = [&](long long v) { s += std::to_string(v); s += ','; };
  put(vm.instruction_pointer); put(vm.stepping_mode_enabled ? 1 : 0); s += "|D";
  for (int w : vm.data) put(w);
  s += "|S"; for (auto &a : vm.stack) { put(a.data_start); put(a.seg_size); put(a.ret_target); put(a.ret_addr); put(a.debug_info); put(a.vm == &vm ? 1 : 0); }
  s += "|E"; for (auto &b : vm.enabled_breakpoints) { s += b.file; s += ':'; put(b.line); }
  s += "|C"; for (auto &in : vm.code.code) { put((int)in.op); put(in.parameters.test.target); put(in.parameters.test.op1); put(in.parameters.test.op2); }
  s += "|P"; for (auto &p : vm.code.potential_breaks) { s += p.first.file; s += ':'; put(p.first.line); for (int i : p.second) put(i); s += ';'; }
  s += "|L"; for (auto &p : vm.code.line_info) { put(p.first); s += p.second.file; s += ':'; put(p.second.line); }
  s += "|M"; for (auto &m : vm.code.stack_maps) { s += m.func_name; for (auto &r : m.map) { put(r.first); s += r.second; s += ','; } s += ';'; }
  return s;
}
static Theo::VM clone(Theo::VM &src) { Theo::VM c = src; for (auto &a : c.stack) a.vm = nullptr; return c; }
static void fix(Theo::VM &vm) { for (auto &a : vm.stack) a.vm = &vm; }

// ---- R-DBG ------------------------------------------------------------------------------------------------------------
struct Model { int k; std::set<Loc> E; bool s; bool operator<(const Model &o) const { return std::tie(k, E, s) < std::tie(o.k, o.E, o.s); } bool operator==(const Model &o) const { return k == o.k && E == o.E && s == o.s; } };

struct RDbg {
  std::vector<Exec> T;          // uninterrupted run
  int lasso = -1;               // T.size() steps wraps to index lasso (full state repeats); -1: ends in HALT or cut
  bool cut = false;             // horizon reached without HALT or repetition
  const Theo::Program &P;
  RDbg(const Theo::Program &P, int horizon) : P(P) {
    Theo::VM vm(P); std::map<std::string, int> seen;
    for (int i = 0; i <= horizon; i++) {
      Exec e = exec_of(vm); std::string key = std::to_string(e.ip) + "|"; for (int w : e.data) key += std::to_string(w) + ","; key += "|"; for (auto &a : e.stack) for (int x : a) key += std::to_string(x) + ",";
      auto it = seen.find(key);
      if (it != seen.end()) { lasso = it->second; return; }
      seen[key] = (int)T.size(); T.push_back(e);
      if (vm.isDone()) return;
      vm.executeSingle();
    }
    cut = true;
  }
  bool is_halt(int k) const { return P.code[T[k].ip].op == OpCode::HALT; }
  bool is_site(int k, Loc *l = nullptr) const { auto it = P.line_info.find(T[k].ip); if (it == P.line_info.end()) return false; if (l) *l = {it->second.file, it->second.line}; return true; }
  // one single step from model state m; returns (defined?, return value). Undefined when the horizon was cut.
  int next(int k) const { if (k + 1 < (int)T.size()) return k + 1; return lasso; /* -1 if cut */ }
  // executeSingle
  bool single(Model &m, bool &ret) const {
    if (is_halt(m.k)) { ret = true; return true; }
    int n = next(m.k); if (n < 0) return false;
    Loc l; ret = is_site(m.k, &l) && (m.s || m.E.count(l)); m.k = n; return true;
  }
  // execute: defined only if a stop is reachable
  bool execute(Model &m, long long &steps, bool *site_stop = nullptr) const {
    Model c = m; steps = 0; bool r;
    for (long long guard = 0; guard < 4LL * (long long)T.size() + 8; guard++) {
      bool at_halt = is_halt(c.k);
      if (!single(c, r)) return false;
      steps++;
      if (r) { m = c; if (site_stop) *site_stop = !at_halt; return true; }
    }
    return false;  // no stop on the lasso: a real execute() would never return
  }
};

// ---- alphabet ---------------------------------------------------------------------------------------------------------
struct Act { enum T { SETBP, CLEAR, STEPMODE, EXECUTE, SINGLE, RESET, ENVBP } t; Loc loc; bool val;
  std::string str() const { switch (t) { case SETBP: return std::string("setBreakPoint(") + loc.first + ":" + std::to_string(loc.second) + "," + (val ? "true" : "false") + ")"; case CLEAR: return "clearBreakpoints()"; case STEPMODE: return std::string("setSteppingMode(") + (val ? "true" : "false") + ")"; case EXECUTE: return "execute()"; case SINGLE: return "executeSingle()"; case ENVBP: return std::string("[another VM, built from an edited version of the source: setBreakPoint(") + loc.first + ":" + std::to_string(loc.second) + ",true)] setBreakPoint(" + loc.first + ":" + std::to_string(loc.second) + ",true)"; default: return "reset()"; } } };

static std::vector<Loc> choose_locations(const Theo::Program &P, const RDbg &R, size_t maxl) {
  std::vector<Loc> all; for (auto &p : P.potential_breaks) all.push_back({p.first.file, p.first.line});
  if (all.size() <= maxl) return all;
  std::map<Loc, long> visits; for (size_t k = 0; k < R.T.size(); k++) { Loc l; if (R.is_site((int)k, &l)) visits[l]++; }
  std::vector<Loc> out; auto add = [&](const Loc &l) { if (out.size() < maxl && std::find(out.begin(), out.end(), l) == out.end()) out.push_back(l); };
  for (auto &p : P.potential_breaks) if (p.second.size() > 1) { add({p.first.file, p.first.line}); if (out.size() >= 2) break; }
  { Loc best; long bv = -1; for (auto &l : all) if (visits[l] > bv) { bv = visits[l]; best = l; } add(best); }
  for (auto &l : all) if (!visits[l]) { add(l); break; }
  for (auto &l : all) if (visits[l] == 1) { add(l); break; }
  for (size_t i = 0; out.size() < maxl && i < all.size(); i++) add(all[(i * 7) % all.size()]);
  return out;
}

// ---- the search -------------------------------------------------------------------------------------------------------
struct Node { Theo::VM vm; Model m; int parent; int act; int depth; int stopped_site; /* code index of the site the machine is stopped on (it has not moved since), -1 unknown */ };

static void explore(const Case &c, const std::string &prop, vf::Stats &st, size_t maxl, int horizon, size_t max_states) {
  st.add("programs_submitted"); st.add("cases");
  Theo::CodegenResult cr = Theo::compile(c.files, c.main);
  if (!cr.generated_correctly) { st.add("not_compiled"); return; }
  const Theo::Program &P = cr.code; std::string cj = c.json(), key = c.key();
  RDbg R(P, horizon);
  std::vector<Loc> L = choose_locations(P, R, maxl);
  std::vector<Act> A;
  for (auto &l : L) { A.push_back({Act::SETBP, l, true}); A.push_back({Act::SETBP, l, false}); }
  // environment: a second machine in the same process, built from an edited version of the same files (one blank line
  // inserted at the top of the main file, so equal locations name other code positions); it must not influence this one
  Files sib_files = c.files; if (sib_files.count(c.main)) sib_files[c.main] = "\n" + sib_files[c.main];
  Theo::CodegenResult sib = Theo::compile(sib_files, c.main);
  if (sib.generated_correctly) for (auto &l : L) A.push_back({Act::ENVBP, l, true});
  Loc bad1 = {L.empty() ? "main" : L[0].first, 9999}, bad2 = {"no such file", 1};
  A.push_back({Act::SETBP, bad1, true}); A.push_back({Act::SETBP, bad2, true}); A.push_back({Act::SETBP, bad1, false});
  A.push_back({Act::CLEAR, {}, false}); A.push_back({Act::STEPMODE, {}, true}); A.push_back({Act::STEPMODE, {}, false});
  A.push_back({Act::EXECUTE, {}, false}); A.push_back({Act::SINGLE, {}, false}); A.push_back({Act::RESET, {}, false});
  std::set<Loc> avail; for (auto &p : P.potential_breaks) avail.insert({p.first.file, p.first.line});

  std::vector<std::unique_ptr<Node>> nodes; std::map<std::string, int> index; std::vector<int> frontier;
  Theo::VM fresh(P); std::string fresh_canon = canon(fresh);
  auto history = [&](int n, const Act *last) { std::vector<std::string> h; while (n > 0) { h.push_back(A[nodes[n]->act].str()); n = nodes[n]->parent; } std::reverse(h.begin(), h.end()); if (last) h.push_back(last->str()); return h; };
  bool failed = false;
  auto viol = [&](int n, const Act *last, const std::string &what) {
    if (failed) return; failed = true;
    std::vector<std::string> h = history(n, last);
    st.violation(key, what + " | history: " + vf::jarr_str(h), cj.substr(0, cj.size() - 1) + ",\"history\":" + vf::jarr_str(h) + "}");
  };
  { auto n = std::make_unique<Node>(Node{fresh, {0, {}, false}, -1, -1, 0, -1}); fix(n->vm); index[fresh_canon] = 0; nodes.push_back(std::move(n)); frontier.push_back(0); }
  // fresh machine observers (C06/C17)
  if ((prop == "C06" || prop == "C17") && (nodes[0]->vm.getCurrentBreak().line != -1 || nodes[0]->vm.getCurrentBreak().file != "none")) viol(0, nullptr, "a new machine reports a current location");
  long long transitions = 0, validated = 0; int maxdepth = 0; std::set<int> stop_positions;
  size_t head = 0;
  while (head < frontier.size() && !failed) {
    int ni = frontier[head++];
    for (size_t ai = 0; ai < A.size() && !failed; ai++) {
      const Act &a = A[ai]; Node &src = *nodes[ni]; Model m = src.m;
      // replaying a recorded violation: no search, exactly the recorded API calls in their order
      if (!c.history.empty() && ((size_t)src.depth >= c.history.size() || a.str() != c.history[src.depth])) continue; bool defined = true; bool mret = false, site_stop = false; long long msteps = 0;
      // model first: is the action defined (execute must be able to stop)?
      switch (a.t) {
        case Act::SETBP: case Act::ENVBP: mret = avail.count(a.loc) > 0; if (mret) { if (a.val) m.E.insert(a.loc); else m.E.erase(a.loc); } break;
        case Act::CLEAR: m.E.clear(); break;
        case Act::STEPMODE: m.s = a.val; break;
        case Act::EXECUTE: defined = R.execute(m, msteps, &site_stop); break;
        case Act::SINGLE: { bool at_halt = R.is_halt(m.k); defined = R.single(m, mret); site_stop = mret && !at_halt; break; }
        case Act::RESET: m = {0, {}, false}; break;
      }
      if (!defined) { st.add(a.t == Act::EXECUTE ? "execute_not_issued(no stop reachable or horizon)" : "single_not_issued(horizon)"); continue; }
      Theo::VM vm = clone(src.vm); fix(vm);
      std::string before = (a.t == Act::EXECUTE || a.t == Act::SINGLE) && R.is_halt(src.m.k) ? canon(vm) : std::string();
      bool rret = false;
      switch (a.t) {
        case Act::SETBP: rret = vm.setBreakPoint(a.loc.first, a.loc.second, a.val); break;
        case Act::ENVBP: { Theo::VM other(sib.code); other.setBreakPoint(a.loc.first, a.loc.second, true); rret = vm.setBreakPoint(a.loc.first, a.loc.second, true); break; }
        case Act::CLEAR: vm.clearBreakpoints(); break;
        case Act::STEPMODE: vm.setSteppingMode(a.val); break;
        case Act::EXECUTE: vm.execute(); break;  // the real resume loop; only issued when the reference proves that a stop is reachable (a hang is caught by the per-program timer)
        case Act::SINGLE: rret = vm.executeSingle(); break;
        case Act::RESET: vm.reset(); break;
      }
      transitions++;
      // ---------------- oracles on this edge
      // a debugger front end looks at every state it reaches (location, activations and their variables, enabled set):
      // the observers are part of every history, whatever they leave behind travels into the successor states
      { vm.getCurrentBreak(); for (auto &act : vm.getActivations()) act.getActivationVariables(); vm.getEnabledBreakPoints(); vm.isDone(); vm.isSteppingModeEnabled(); }
      Exec e = exec_of(vm); const Exec &want = R.T[m.k];
      if (prop == "C05") {
        if (!(e == want)) { viol(ni, &a, "computation differs from the uninterrupted run at position " + std::to_string(m.k) + ": ip " + std::to_string(e.ip) + " (expected " + std::to_string(want.ip) + "), data words " + std::to_string(e.data.size()) + " (expected " + std::to_string(want.data.size()) + "), activations " + std::to_string(e.stack.size()) + " (expected " + std::to_string(want.stack.size()) + ")" + (e.data != want.data ? " [data differs]" : "")); continue; }
        for (size_t i = 0; i < P.code.size(); i++) {
          const auto &x = vm.code.code[i], &y = P.code[i]; bool site = P.line_info.count((int)i) > 0;
          bool opok = x.op == y.op || (site && (x.op == OpCode::BREAK || x.op == OpCode::POTENTIAL_BREAK) && (y.op == OpCode::POTENTIAL_BREAK));
          if (!opok || x.parameters.test.target != y.parameters.test.target || x.parameters.test.op1 != y.parameters.test.op1 || x.parameters.test.op2 != y.parameters.test.op2) { viol(ni, &a, "instruction " + std::to_string(i) + " of the loaded program was modified (" + real::opname(y.op) + " -> " + real::opname(x.op) + ")"); break; }
        }
        if (failed) continue;
        // observers must not change anything
        std::string c0 = canon(vm); vm.getCurrentBreak(); for (auto &act : vm.getActivations()) act.getActivationVariables(); vm.getEnabledBreakPoints(); vm.isDone(); vm.isSteppingModeEnabled(); vm.code.getAvailableBreakpoints();
        if (canon(vm) != c0) { viol(ni, &a, "an observer changed the machine state"); continue; }
      }
      if (prop == "C06") {
        if ((a.t == Act::SETBP || a.t == Act::ENVBP) && rret != mret) { viol(ni, &a, std::string("setBreakPoint returned ") + (rret ? "true" : "false") + " for a location that is " + (mret ? "" : "not ") + "available"); continue; }
        if (a.t == Act::SINGLE && rret != mret) { viol(ni, &a, std::string("executeSingle returned ") + (rret ? "true" : "false") + ", reference " + (mret ? "true" : "false") + " at position " + std::to_string(src.m.k)); continue; }
        if ((a.t == Act::EXECUTE || a.t == Act::SINGLE) && !(e == want)) { viol(ni, &a, "stopped at ip " + std::to_string(e.ip) + ", the first stop of the reference is ip " + std::to_string(want.ip) + " (position " + std::to_string(m.k) + ")"); continue; }
        std::set<Loc> en; for (auto &b : vm.getEnabledBreakPoints()) en.insert({b.file, b.line});
        if (en != m.E) { viol(ni, &a, "enabled set has " + std::to_string(en.size()) + " locations, reference " + std::to_string(m.E.size())); continue; }
        if (vm.isSteppingModeEnabled() != m.s) { viol(ni, &a, "stepping mode flag differs"); continue; }
        Theo::BreakPoint cb = vm.getCurrentBreak();
        if (!site_stop && src.stopped_site >= 0 && (a.t == Act::SETBP || a.t == Act::ENVBP || a.t == Act::CLEAR || a.t == Act::STEPMODE)) {
          // still standing on the site it stopped on: toggling breakpoints or stepping must not change the reported location
          auto it = P.line_info.find(src.stopped_site);
          if (cb.file != it->second.file || cb.line != it->second.line) { viol(ni, &a, "still stopped on the site of " + it->second.file + ":" + std::to_string(it->second.line) + " (no execution since the stop) but the current location is now " + cb.file + ":" + std::to_string(cb.line)); continue; }
        }
        if (site_stop) {
          // the instruction just passed is the site the reference stopped on
          int passed = want.ip - 1; auto it = P.line_info.find(passed);
          if (it == P.line_info.end()) { fprintf(stderr, "ERROR: reference stop is not a site (harness bug)\n"); exit(2); }
          if (cb.file != it->second.file || cb.line != it->second.line) { viol(ni, &a, "stopped on site of " + it->second.file + ":" + std::to_string(it->second.line) + " but the current location is " + cb.file + ":" + std::to_string(cb.line)); continue; }
          stop_positions.insert(passed);
        }
        if ((a.t == Act::RESET || m.k == 0) && e.ip == 0 && (cb.line != -1 || cb.file != "none")) { viol(ni, &a, "current location " + cb.file + ":" + std::to_string(cb.line) + " before execution started / after reset"); continue; }
        if (vm.isDone() != R.is_halt(m.k)) { viol(ni, &a, "isDone() differs from the reference"); continue; }
      }
      if (prop == "C17") {
        if (a.t == Act::RESET) {
          std::string cn = canon(vm);
          if (cn != fresh_canon) { viol(ni, &a, "state after reset() differs from a newly constructed machine" + std::string(vm.enabled_breakpoints.empty() ? "" : " [enabled set not empty]") + (vm.stepping_mode_enabled ? " [stepping on]" : "") + (vm.data.empty() ? "" : " [data not empty]") + (vm.stack.empty() ? "" : " [activations left]") + (vm.instruction_pointer ? " [ip != 0]" : "")); continue; }
          if (!vm.getActivations().empty() || !vm.getEnabledBreakPoints().empty() || vm.isSteppingModeEnabled() || vm.getCurrentBreak().line != -1) { viol(ni, &a, "observers after reset() differ from a new machine"); continue; }
          Theo::VM again = clone(vm); fix(again); again.reset(); if (canon(again) != fresh_canon) { viol(ni, &a, "a second reset() changes the state"); continue; }
        }
        if (!before.empty() && canon(vm) != before) { viol(ni, &a, "the end of the program is not absorbing: " + a.str() + " changed the state"); continue; }
        if (!before.empty() && a.t == Act::SINGLE && !rret) { viol(ni, &a, "executeSingle at the end of the program returned false"); continue; }
      }
      if ((prop == "C05" || prop == "C17") && a.t == Act::RESET && src.m.k > 0) {
        // states are merged by what can be read from the machine; a reset machine merges with the initial state, so what it
        // does afterwards is compared here, instruction by instruction, with the uninterrupted run of a new machine
        Theo::VM p = clone(vm); fix(p);
        for (size_t k = 1; k < R.T.size() && k <= 600; k++) {
          if (p.isDone()) { viol(ni, &a, "run after reset(): the machine is done after " + std::to_string(k - 1) + " instructions, a new machine is not"); break; }
          p.executeSingle();
          if (!(exec_of(p) == R.T[k])) { viol(ni, &a, "run after reset(): after " + std::to_string(k) + " instructions the machine differs from a new machine's run (ip " + std::to_string(p.instruction_pointer) + " vs " + std::to_string(R.T[k].ip) + (exec_of(p).data != R.T[k].data ? ", data differs" : "") + ")"); break; }
        }
        if (failed) continue;
        st.add("runs_after_reset_compared");
      }
      if (prop == "C19") { for (auto &act : vm.getActivations()) act.getActivationVariables(); vm.getCurrentBreak();  // the front end inspects every state it reaches
        std::string fe = orc::frames_exact(vm); if (!fe.empty()) { viol(ni, &a, fe); continue; } }
      // ---------------- successor
      std::string cn = canon(vm);
      auto it = index.find(cn);
      if (it == index.end()) {
        if (nodes.size() >= max_states) { st.capped = true; st.add("state_cap_hit"); failed = true; break; }
        int stopped = site_stop ? want.ip - 1 : ((a.t == Act::SETBP || a.t == Act::ENVBP || a.t == Act::CLEAR || a.t == Act::STEPMODE) ? src.stopped_site : -1);
        auto n = std::make_unique<Node>(Node{vm, m, ni, (int)ai, src.depth + 1, stopped}); fix(n->vm);
        maxdepth = std::max(maxdepth, n->depth); index[cn] = (int)nodes.size(); frontier.push_back((int)nodes.size()); nodes.push_back(std::move(n));
      } else if (!(nodes[it->second]->m == m)) {
        // two model states map to one real state: the real machine lost information the reference keeps
        viol(ni, &a, "real state reached with two different reference states (k=" + std::to_string(m.k) + "/" + std::to_string(nodes[it->second]->m.k) + ", |E|=" + std::to_string(m.E.size()) + "/" + std::to_string(nodes[it->second]->m.E.size()) + ")");
      }
    }
  }
  // determinism / replay validation: every 16th state is re-reached by replaying its history on a fresh machine
  for (size_t n = 0; n < nodes.size() && !failed; n += 16) {
    std::vector<int> acts; int x = (int)n; while (x > 0) { acts.push_back(nodes[x]->act); x = nodes[x]->parent; } std::reverse(acts.begin(), acts.end());
    Theo::VM vm(P);
    for (int ai : acts) { const Act &a = A[ai]; switch (a.t) { case Act::ENVBP: { Theo::VM other(sib.code); other.setBreakPoint(a.loc.first, a.loc.second, true); vm.setBreakPoint(a.loc.first, a.loc.second, true); break; } case Act::SETBP: vm.setBreakPoint(a.loc.first, a.loc.second, a.val); break; case Act::CLEAR: vm.clearBreakpoints(); break; case Act::STEPMODE: vm.setSteppingMode(a.val); break; case Act::EXECUTE: vm.execute(); break; case Act::SINGLE: vm.executeSingle(); break; case Act::RESET: vm.reset(); break; } }
    if (canon(vm) != canon(nodes[n]->vm)) { fprintf(stderr, "ERROR: replay of a recorded history reached a different state (harness nondeterminism)\n"); exit(2); }
    validated++;
  }
  st.add("programs"); st.add("states", (long long)nodes.size()); st.add("transitions", transitions); st.add("traces_validated", validated);
  st.max("bfs_depth", maxdepth); st.max("states_per_program", (long long)nodes.size()); st.max("trace_positions", (long long)R.T.size()); st.max("toggled_locations", (long long)L.size());
  st.add("distinct_stop_positions", (long long)stop_positions.size());
  if (R.lasso >= 0) st.add("diverging_programs(lasso)"); if (R.cut) st.add("programs_cut_at_horizon");
  bool multi = false; for (auto &p : P.potential_breaks) if (p.second.size() > 1) multi = true; if (multi) st.add("programs_with_multi_site_lines");
  st.nontrivial.insert(c.hash()); st.outcomes.insert(vf::mix(nodes.size() * 1000003ULL + transitions));
  if (nodes.size() > 64) st.sample("{\"source\":" + vf::jmap(c.files) + ",\"states\":" + std::to_string(nodes.size()) + ",\"transitions\":" + std::to_string(transitions) + ",\"trace_positions\":" + std::to_string(R.T.size()) + ",\"toggled\":" + std::to_string(L.size()) + ",\"deepest_history\":" + vf::jarr_str(history((int)nodes.size() - 1, nullptr)) + "}", 2);
}

// ---- programs -----------------------------------------------------------------------------------------------------------
static std::vector<Case> curated() {
  std::vector<Case> v;
  v.push_back(single("x0 := 1;\nx1 := x0 + 2;\nx2 := x1\n"));
  v.push_back(single("x0 := 3;\nLOOP x0 DO\n  x1 := x1 + 1\nEND;\nx2 := x1\n"));
  v.push_back(single("PROGRAM f IN a DO\n  x0 := a;\n  LOOP a DO\n    x0 := x0 + 1\n  END\nEND\nx1 := 2;\nx0 := RUN f WITH x1 END;\nx2 := x0\n"));
  { Case c; c.main = "main"; c.files["main"] = "PROGRAM f IN a DO\nx0 := a INCLUDE \"e\" PROGRAM g IN a DO x0 := a END x1 := RUN f WITH 1 END ; x2 := RUN g WITH x1 END"; c.files["e"] = "END"; v.push_back(c); }
  { Case c; c.main = "main"; c.files["lib"] = "DEFINE TWICE <ID> AS\n$0 := $0 + 1;\n$0 := $0 + 1\nENDDEF"; c.files["main"] = "INCLUDE \"lib\"\nTWICE x0;\nTWICE x1;\nx2 := x0"; v.push_back(c); }
  v.push_back(single("PROGRAM f IN a DO\n  x1 := a;\n  STOP\nEND\nx0 := 1; x1 := RUN f WITH x0 END;\nx2 := 5\n"));
  v.push_back(single("x0 := 1;\nWHILE x0 != 0 DO\n  x1 := 2\nEND\n"));
  v.push_back(single("PROGRAM inner IN a DO\n  x1 := a;\n  STOP\nEND\nPROGRAM mid IN a DO\n  x0 := RUN inner WITH a END\nEND\nPROGRAM outer IN a DO\n  x0 := RUN mid WITH a END\nEND\nx0 := 1;\nx1 := RUN outer WITH x0 END;\nx2 := 5\n"));
  v.push_back(single("x0 := 2;\nla: x1 := x1 + 1;\nx0 := x0 - 1;\nIF x0 = 0 THEN GOTO lb;\nGOTO la;\nlb: x2 := x1\n"));
  v.push_back(single("x0 := 1; x1 := 2; x2 := 3\n"));
  v.push_back(single("x0 := 2147483646;\nx1 := x0 + 5;\nx0 := x0 + 2147483646;\nx2 := x0 - 7\n"));
  v.push_back(single("x1 := 3;\nLOOP x1 DO\n  x0 := x0 + 1000000000\nEND;\nx2 := x0\n"));
  v.push_back(single("PROGRAM f DO x0 := 1 END PROGRAM g DO x0 := RUN f WITH END END x0 := RUN g WITH END; x1 := RUN g WITH END\n"));
  v.push_back(single("x0 := 2;\nWHILE x0 != 0 DO\n  x0 := x0 - 1;\n  LOOP x0 DO\n    x1 := x1 + 1\n  END\nEND\n"));
  v.push_back(single("x0 := 1;\nWHILE x0 != 0 DO\n  x1 := x1 + 1;\n  IF x1 = 3 THEN GOTO out\nEND;\nout: x2 := x1\n"));
  return v;
}
static Level fam_curated(int n) { return {"curated(" + std::to_string(n) + ")", [=](const CB &cb) { auto v = curated(); for (int i = 0; i < n && i < (int)v.size(); i++) cb(v[i]); }}; }
static Level fam_FA(int maxnodes) { return {"F-A<=" + std::to_string(maxnodes), [=](const CB &cb) { gen::enum_FA(maxnodes, 2, false, [&](const gen::Seq &s) { cb(single(gen::print_fl(s))); }); }}; }
static Level fam_FB(int maxnodes) { return {"F-B<=" + std::to_string(maxnodes), [=](const CB &cb) { gen::enum_FB(maxnodes, 2, [&](const gen::Seq &s) { cb(single(gen::print_fl(s))); }); }}; }
static Level fam_FC(int maxdefs, int shapesN) {
  return {"F-C(<=" + std::to_string(maxdefs) + " defs, main 1 node)", [=](const CB &cb) {
            std::vector<int> shapes; for (int i = 0; i < shapesN; i++) shapes.push_back(i);
            gen::enum_defs(maxdefs, shapes, [&](const std::vector<gen::DefInst> &defs) {
              if (defs.empty()) return;
              std::vector<std::string> dl; for (auto &d : defs) for (auto &l : gen::print_def(d)) dl.push_back(l);
              gen::Alphabet A = gen::alphabet_FC(defs, false, false); gen::Seq cur;
              gen::enum_seq(A, 1, 1, cur, [&](const gen::Seq &s) { if (s[0].text.find("RUN") == std::string::npos) return; std::vector<std::string> all = dl; gen::print_lines(s, all); cb(single(gen::join_lines(all))); });
            }); }};
}

static Level fam_FD(int ncorpus, int maxinc, int maxgaps) {
  return {"F-D(" + std::to_string(ncorpus) + " programs,<=" + std::to_string(maxinc) + " includes," + std::to_string(maxgaps) + " gaps)", [=](const CB &cb) {
            gen::enum_FD(ncorpus, maxinc, maxgaps, [&](const Files &f, const std::string &m) { Case c; c.files = f; c.main = m; cb(c); }); }};
}

int main(int argc, char **argv) {
  drv::Args args = drv::Args::parse(argc, argv); bool T = args.thorough();
  if (args.prop != "C05" && args.prop != "C06" && args.prop != "C17" && args.prop != "C19") { fprintf(stderr, "ERROR: unknown property\n"); return 2; }
  std::vector<Level> L = {fam_curated(100), fam_FA(2), fam_FC(1, 16), fam_FB(2), fam_FD(11, 1, 3), fam_FB(3)};
  if (T) { L.push_back(fam_FC(2, 8)); L.push_back(fam_FA(3)); L.push_back(fam_FD(11, 2, 5)); }
  size_t maxl = 5; int horizon = T ? 600 : 300; size_t max_states = T ? 400000 : 120000;
  std::string prop = args.prop;
  return drv::run<Case>(args, L, [=](const Case &c, vf::Stats &st) { explore(c, prop, st, maxl, horizon, max_states); }, {}, 60);
}
