// Generic level-by-level, sharded, crash-contained exploration loop shared by the drivers.
#pragma once
#include "common.hpp"

namespace drv {

struct Args {
  std::string prop, tier = "quick", out, replay, part; int level_from = 0, level_to = 1000;
  double deadline_s = 0; int shards = 16; long seed = 0;
  static Args parse(int argc, char **argv) {
    Args a;
    for (int i = 1; i < argc; i++) {
      std::string s = argv[i];
      auto nx = [&]() { return std::string(i + 1 < argc ? argv[++i] : ""); };
      if (s == "--prop") a.prop = nx(); else if (s == "--tier") a.tier = nx(); else if (s == "--out") a.out = nx();
      else if (s == "--replay") a.replay = nx(); else if (s == "--deadline") a.deadline_s = atof(nx().c_str());
      else if (s == "--part") a.part = nx(); else if (s == "--levels") { std::string v = nx(); sscanf(v.c_str(), "%d:%d", &a.level_from, &a.level_to); }
      else if (s == "--shards") a.shards = atoi(nx().c_str()); else if (s == "--seed") a.seed = atol(nx().c_str());
    }
    return a;
  }
  bool thorough() const { return tier == "thorough"; }
};

template <class Case> struct Level {
  std::string name;
  std::function<void(const std::function<void(const Case &)> &)> enumerate;
};

// Case must provide: std::string json() const; uint64_t hash() const; static Case from(const vf::J&);
template <class Case>
int run(const Args &args, const std::vector<Level<Case>> &levels, const std::function<void(const Case &, vf::Stats &)> &oracle,
        const std::map<std::string, std::string> &extra_raw = {}, double case_limit_s = 20,
        const std::function<void(const Case &)> &on_confirmed_crash = nullptr) {
  double t0 = vf::now_s();
  if (!args.replay.empty()) {
    vf::J j = vf::jparse(vf::slurp(args.replay)); const vf::J &cj = j.has("case") ? j["case"] : j;
    Case c = Case::from(cj); std::string err, out;
    std::string how = vf::run_isolated([&]() { vf::Stats st; oracle(c, st); for (auto &v : st.viol) printf("REPLAY-VIOLATION %s\n", v.what.c_str()); return st.nviol ? 3 : 0; }, case_limit_s * 5, &err, &out);
    fputs(out.c_str(), stdout);
    if (how.empty()) { printf("REPLAY-OK property=%s no violation on this case\n", args.prop.c_str()); return 0; }
    if (how != "exit 3") printf("REPLAY-VIOLATION crash (%s): %s\n", how.c_str(), err.substr(0, 1500).c_str());
    return 1;
  }
  double deadline = args.deadline_s > 0 ? vf::now_s() + args.deadline_s : 0;
  vf::Stats total; std::vector<std::string> done, planned;
  { int k = -1; for (auto &l : levels) { k++; if (k >= args.level_from && k < args.level_to) planned.push_back(l.name); } }
  int li = -1;
  for (auto &l : levels) {
    li++;
    if (li < args.level_from || li >= args.level_to) continue;
    if (deadline > 0 && vf::now_s() > deadline) { total.capped = true; break; }
    double tl = vf::now_s();
    vf::Stats s = vf::run_sharded(
        args.shards,
        [&](vf::Worker &w) {
          l.enumerate([&](const Case &c) {
            if (!w.take(c.hash())) return;
            w.begin(c.json());
            oracle(c, w.st);
            w.end();
          });
          w.st.add("enumerated", (long long)w.idx / w.nshards + ((long long)w.idx % w.nshards > w.shard ? 1 : 0));
        },
        [&](const vf::CrashInfo &ci, vf::Stats &st) {
          // confirm alone, twice, with a longer limit; a run that completes alone and reports ordinary violations
          // (e.g. the worker only died of the per-case timer) contributes those violations instead
          int repro = 0; std::string err, how, out; std::vector<std::string> reported;
          vf::J cj = vf::jparse(ci.casejson); Case c = Case::from(cj);
          bool was_timeout = ci.how == "timeout";  // a hang is re-run alone once with twice the limit, a crash twice with five times
          for (int k = 0; k < (was_timeout ? 1 : 2); k++) {
            out.clear();
            how = vf::run_isolated([&]() { vf::Stats s2; oracle(c, s2); for (auto &v : s2.viol) { std::string w = v.what; for (auto &ch : w) if (ch == '\n') ch = ' '; printf("VIOL\t%s\n", w.c_str()); } return s2.nviol ? 3 : 0; }, case_limit_s * (was_timeout ? 2 : 5), &err, &out);
            if (how == "exit 3") { std::istringstream is(out); std::string line; while (std::getline(is, line)) if (line.rfind("VIOL\t", 0) == 0) reported.push_back(line.substr(5)); }
            else if (!how.empty()) repro++;
          }
          if (repro == (was_timeout ? 1 : 2)) {
            if (on_confirmed_crash) on_confirmed_crash(c);
            st.violation(c.key(), "crash (" + how + ") while executing this case: " + err.substr(0, 1200), ci.casejson);
          } else if (!reported.empty()) {
            st.violation(c.key(), reported[0], ci.casejson);
          } else {
            fprintf(stderr, "WARNING: worker died (%s) on a case that does not fail alone (%d/2); case %s\n", ci.how.c_str(), repro, ci.casejson.substr(0, 300).c_str());
            st.add("unreproduced_worker_deaths"); st.capped = true;
          }
        },
        deadline, case_limit_s);
    s.add("level_wall_ms:" + l.name, (long long)((vf::now_s() - tl) * 1000));
    bool capped = s.capped; total.merge(s);
    if (capped) break;
    done.push_back(l.name);
  }
  std::map<std::string, std::string> extra = extra_raw;
  extra["levels_completed"] = vf::jarr_str(done); extra["levels_planned"] = vf::jarr_str(planned);
  extra["wall_s"] = std::to_string(vf::now_s() - t0);
  std::string js = vf::stats_json(total, extra);
  if (!args.out.empty()) { FILE *f = fopen(args.out.c_str(), "w"); fputs(js.c_str(), f); fclose(f); }
  else puts(js.c_str());
  return total.nviol ? 1 : 0;
}

}  // namespace drv
