// R-MAC: reference semantics of macro definitions and macro expansion (highest priority, leftmost, longest).
// The slot grammar is the documented one (ID, INT, VALUE, ARGS, P); left recursion is written as iteration.
#pragma once
#include <map>
#include <set>
#include <string>
#include <vector>

#include "ref_parse.hpp"

namespace ref {

struct MacroDef {
  long long prio = 0;
  std::vector<Tok> pattern, body;
  std::vector<int> slots;  // indices into pattern of template tokens, in order
  bool wellformed = true; std::string why;
};

struct Extracted { std::vector<MacroDef> defs; std::vector<Tok> rest; bool wellformed = true; std::string why; };

inline bool is_slot(int k) { return k == PROG_TEMP || k == VALUE_TEMP || k == ID_TEMP || k == INT_TEMP || k == ARGS_TEMP; }

// DEFINE [PRIORITY int] pattern+ AS body* END_DEFINE ; anything else makes the source "not well-formed" for R-MAC
inline Extracted extract(const std::vector<Tok> &in) {
  Extracted e; size_t i = 0;
  auto bad = [&](const std::string &w) { if (e.wellformed) { e.wellformed = false; e.why = w; } };
  while (i < in.size()) {
    if (in[i].k != DEFINE) { e.rest.push_back(in[i++]); continue; }
    i++; MacroDef d;
    if (i < in.size() && in[i].k == PRIORITY) {
      i++;
      if (i < in.size() && in[i].k == INT) { d.prio = lit_value(in[i].text); if (d.prio >= LIT_LIMIT) bad("priority out of range"); i++; }
      else bad("priority without integer");
    }
    while (i < in.size() && in[i].k != AS && in[i].k != T_EOF) { if (in[i].k == DEFINE) bad("nested define"); if (in[i].k == END_DEFINE) bad("end define inside pattern"); d.pattern.push_back(in[i]); if (is_slot(in[i].k)) d.slots.push_back((int)d.pattern.size() - 1); i++; }
    if (i >= in.size() || in[i].k != AS) { bad("definition without AS"); break; }
    if (d.pattern.empty()) bad("empty pattern");
    i++;
    while (i < in.size() && in[i].k != END_DEFINE && in[i].k != T_EOF) { if (in[i].k == DEFINE || in[i].k == AS) bad("define/as inside body"); d.body.push_back(in[i]); i++; }
    if (i >= in.size() || in[i].k != END_DEFINE) { bad("definition without END DEFINE"); break; }
    i++;
    for (auto &t : d.body) if (t.k == INSERTION) { long long n = lit_value(t.text.substr(1)); if (n >= (long long)d.slots.size()) bad("insertion " + t.text + " without slot"); }
    e.defs.push_back(d);
  }
  return e;
}

// ---- recogniser for the slot non-terminals: all end positions ------------------------------------------------------
struct Recog {
  const std::vector<Tok> &t;
  std::map<std::pair<int, int>, std::vector<int>> memo;
  Recog(const std::vector<Tok> &t) : t(t) {}
  int k(int i) const { return i < (int)t.size() ? t[i].k : -1; }
  enum NT { N_ID, N_INT, N_VALUE, N_ARGS, N_P, N_STMT, N_ATOM };
  const std::vector<int> &ends(int nt, int i) {
    auto key = std::make_pair(nt, i); auto it = memo.find(key); if (it != memo.end()) return it->second;
    std::set<int> r;
    switch (nt) {
      case N_ID: if (k(i) == ID) r.insert(i + 1); break;
      case N_INT: if (k(i) == INT) r.insert(i + 1); break;
      case N_VALUE:
        if (k(i) == ID || k(i) == INT) r.insert(i + 1);
        if (k(i) == RUN && k(i + 1) == ID && k(i + 2) == WITH) for (int e : std::vector<int>(ends(N_ARGS, i + 3))) if (k(e) == END) r.insert(e + 1);
        break;
      case N_ARGS: {  // VALUE (, VALUE)*
        std::vector<int> front(ends(N_VALUE, i)); std::set<int> seen(front.begin(), front.end());
        while (!front.empty()) { int e = front.back(); front.pop_back(); r.insert(e);
          if (k(e) == ARGSEP) for (int f : std::vector<int>(ends(N_VALUE, e + 1))) if (seen.insert(f).second) front.push_back(f); }
        break; }
      case N_P: {  // STATEMENT (; STATEMENT)*
        std::vector<int> front(ends(N_STMT, i)); std::set<int> seen(front.begin(), front.end());
        while (!front.empty()) { int e = front.back(); front.pop_back(); r.insert(e);
          if (k(e) == PROGSEP) for (int f : std::vector<int>(ends(N_STMT, e + 1))) if (seen.insert(f).second) front.push_back(f); }
        break; }
      case N_STMT:
        for (int e : std::vector<int>(ends(N_ATOM, i))) r.insert(e);
        if (k(i) == ID && k(i + 1) == LABELDEC) for (int e : std::vector<int>(ends(N_ATOM, i + 2))) r.insert(e);
        break;
      case N_ATOM:
        if (k(i) == ID && k(i + 1) == ASSIGN) for (int e : std::vector<int>(ends(N_VALUE, i + 2))) r.insert(e);
        if (k(i) == LOOP && k(i + 1) == ID && k(i + 2) == DO) for (int e : std::vector<int>(ends(N_P, i + 3))) if (k(e) == END) r.insert(e + 1);
        if (k(i) == WHILE && k(i + 1) == ID && k(i + 2) == NEQ_ZERO && k(i + 3) == DO) for (int e : std::vector<int>(ends(N_P, i + 4))) if (k(e) == END) r.insert(e + 1);
        if (k(i) == GOTO && k(i + 1) == ID) r.insert(i + 2);
        if (k(i) == IF && k(i + 1) == ID && k(i + 2) == EQ && k(i + 3) == INT && k(i + 4) == THEN && k(i + 5) == GOTO && k(i + 6) == ID) r.insert(i + 7);
        if (k(i) == STOP) r.insert(i + 1);
        break;
    }
    return memo[key] = std::vector<int>(r.begin(), r.end());
  }
};

struct Match { int start, end; std::vector<std::pair<int, int>> bind; /* per pattern symbol: [from,to) */ };

inline bool literal_matches(const Tok &pat, const Tok &s) {
  if (pat.k != s.k) return false;
  if (pat.k == ID || pat.k == INT || pat.k == NV_ID) return pat.text == s.text;
  return true;
}
inline int slot_nt(int k) { return k == ID_TEMP ? Recog::N_ID : k == INT_TEMP ? Recog::N_INT : k == VALUE_TEMP ? Recog::N_VALUE : k == ARGS_TEMP ? Recog::N_ARGS : Recog::N_P; }

// all matches of the pattern that start at `start` (capped)
inline void matches_at(const MacroDef &d, Recog &rc, int start, std::vector<Match> &out, size_t cap = 16) {
  Match cur; cur.start = start;
  std::function<void(size_t, int)> go = [&](size_t si, int pos) {
    if (out.size() >= cap) return;
    if (si == d.pattern.size()) { cur.end = pos; out.push_back(cur); return; }
    const Tok &p = d.pattern[si];
    if (is_slot(p.k)) {
      for (int e : std::vector<int>(rc.ends(slot_nt(p.k), pos))) { cur.bind.push_back({pos, e}); go(si + 1, e); cur.bind.pop_back(); }
    } else {
      if (pos < (int)rc.t.size() && rc.t[pos].k != T_EOF && literal_matches(p, rc.t[pos])) { cur.bind.push_back({pos, pos + 1}); go(si + 1, pos + 1); cur.bind.pop_back(); }
    }
  };
  go(0, start);
}

struct StepInfo { int macro = -1; int start = 0, end = 0; bool tie = false; bool ambiguous = false; std::vector<Match> cands; std::vector<int> cand_macro; };

inline std::vector<Tok> instantiate(const MacroDef &d, const Match &m, const std::vector<Tok> &s, int step) {
  std::vector<Tok> out;
  for (auto &b : d.body) {
    if (b.k == INSERTION) { int n = (int)lit_value(b.text.substr(1)); auto r = m.bind[d.slots[n]]; for (int i = r.first; i < r.second; i++) out.push_back(s[i]); }
    else if (b.k == TEMP_VAL) { Tok t = b; t.k = ID; t.text = b.text + "@" + std::to_string(step); out.push_back(t); }
    else out.push_back(b);
  }
  return out;
}

// One rewriting step. usable[i] says whether definition i takes part. Returns false if nothing matches.
inline bool step(std::vector<Tok> &s, const std::vector<MacroDef> &defs, const std::vector<bool> &usable, int stepno, StepInfo *info = nullptr) {
  Recog rc(s);
  bool have = false; long long bp = 0; Match best; int bm = -1; StepInfo si;
  for (size_t di = 0; di < defs.size(); di++) {
    if (!usable[di]) continue;
    for (int st = 0; st < (int)s.size(); st++) {
      std::vector<Match> ms; matches_at(defs[di], rc, st, ms);
      if (ms.empty()) continue;
      if (ms.size() > 1) si.ambiguous = true;
      for (auto &m : ms) {
        bool better = !have || defs[di].prio > bp || (defs[di].prio == bp && (m.start < best.start || (m.start == best.start && (m.end - m.start) > (best.end - best.start))));
        if (better) { have = true; bp = defs[di].prio; best = m; bm = (int)di; }
      }
      break;  // later starts of the same macro can never win against this one
    }
  }
  if (!have) return false;
  // collect every candidate that ties with the winner (any of them may be taken)
  for (size_t di = 0; di < defs.size(); di++) {
    if (!usable[di] || defs[di].prio != bp) continue;
    std::vector<Match> ms; matches_at(defs[di], rc, best.start, ms);
    for (auto &m : ms) if (m.end == best.end) { si.cands.push_back(m); si.cand_macro.push_back((int)di); }
  }
  si.tie = si.cands.size() > 1; si.macro = bm; si.start = best.start; si.end = best.end;
  std::vector<Tok> rep = instantiate(defs[bm], best, s, stepno);
  std::vector<Tok> out(s.begin(), s.begin() + best.start); out.insert(out.end(), rep.begin(), rep.end()); out.insert(out.end(), s.begin() + best.end, s.end());
  s.swap(out);
  if (info) *info = si;
  return true;
}

// canonical text of a token stream with temporaries renamed by first occurrence (for comparison modulo renaming)
inline std::vector<std::pair<int, std::string>> canon_stream(const std::vector<Tok> &s) {
  std::map<std::string, int> ren; std::vector<std::pair<int, std::string>> out;
  for (auto &t : s) { if (t.k == ID && !t.text.empty() && t.text[0] == '#') { if (!ren.count(t.text)) { int n = (int)ren.size(); ren[t.text] = n; } out.push_back({t.k, "#" + std::to_string(ren[t.text])}); } else out.push_back({t.k, t.text}); }
  return out;
}

// every stream that one rewriting step may produce (several only when candidates tie on priority, start and length)
inline std::vector<std::vector<Tok>> step_choices(const std::vector<Tok> &s, const std::vector<MacroDef> &defs, const std::vector<bool> &usable, int stepno, bool *ambiguous = nullptr) {
  std::vector<Tok> probe = s; StepInfo si; std::vector<std::vector<Tok>> out;
  if (!step(probe, defs, usable, stepno, &si)) return out;
  if (ambiguous && si.ambiguous) *ambiguous = true;
  for (size_t c = 0; c < si.cands.size(); c++) {
    std::vector<Tok> rep = instantiate(defs[si.cand_macro[c]], si.cands[c], s, stepno);
    std::vector<Tok> o(s.begin(), s.begin() + si.start); o.insert(o.end(), rep.begin(), rep.end()); o.insert(o.end(), s.begin() + si.end, s.end());
    bool dup = false; for (auto &x : out) if (canon_stream(x) == canon_stream(o)) dup = true;
    if (!dup) out.push_back(o);
  }
  if (out.empty()) out.push_back(probe);
  return out;
}

struct Expanded { std::vector<Tok> toks; long long steps = 0; bool exhausted = false; /* rewriting still possible after the budget */ bool tie = false, ambiguous = false; };

inline Expanded expand(std::vector<Tok> s, const std::vector<MacroDef> &defs, const std::vector<bool> &usable, long long budget) {
  Expanded e;
  for (long long i = 0; i < budget; i++) { StepInfo si; if (!step(s, defs, usable, (int)i, &si)) { e.toks = s; return e; } e.steps++; e.tie |= si.tie; e.ambiguous |= si.ambiguous; }
  std::vector<Tok> probe = s; StepInfo si; e.exhausted = step(probe, defs, usable, (int)budget, &si);
  e.toks = s; return e;
}

inline std::vector<MacroDef> standard_macros() {
  std::vector<Tok> src = lex("DEFINE PRIO 1000000 <ID> + <INT> AS RUN __INC__ WITH $0, $1 END END DEFINE\nDEFINE PRIO 1000000 <ID> - <INT> AS RUN __DEC__ WITH $0, $1 END END DEFINE\n  ", "__standards__");
  return extract(src).defs;
}

// shapes the documentation itself names as not usable (C12 decides the general question with R-LR)
inline bool obviously_nonlinear(const MacroDef &d) {
  if (d.pattern.empty()) return true;
  int last = d.pattern.back().k; if (last == PROG_TEMP || last == ARGS_TEMP) return true;
  for (size_t i = 0; i + 1 < d.pattern.size(); i++) {
    if (d.pattern[i].k == PROG_TEMP && d.pattern[i + 1].k == PROGSEP) return true;
    if (d.pattern[i].k == ARGS_TEMP && d.pattern[i + 1].k == ARGSEP) return true;
  }
  return false;
}

// front end for sources WITH user macros: extraction, expansion with the standard macros, then the core front end
inline FrontResult front_with_macros(const std::vector<Tok> &scanned, long long budget = 1024) {
  FrontResult r; r.has_define = true;
  Extracted ex = extract(scanned);
  if (!ex.wellformed) { r.excluded = true; r.excluded_why = "macro definition not well-formed: " + ex.why; return r; }
  std::vector<MacroDef> defs = standard_macros();
  for (auto &d : ex.defs) { if (obviously_nonlinear(d)) { r.excluded = true; r.excluded_why = "non-linear macro pattern"; return r; } defs.push_back(d); }
  Expanded e = expand(ex.rest, defs, std::vector<bool>(defs.size(), true), budget);
  if (e.exhausted || e.steps >= budget) { r.excluded = true; r.excluded_why = "macro budget"; return r; }
  if (e.ambiguous) { r.excluded = true; r.excluded_why = "ambiguous macro match"; return r; }
  r.toks = e.toks;
  Parser ps(r.toks); r.prog = ps.program();
  if (!ps.ok) { r.accept = false; r.why = ps.why; return r; }
  r.accept = true; Static st{r, r.prog};
  for (size_t i = 0; i < r.prog.defs.size(); i++) {
    Def &d = r.prog.defs[i]; std::set<std::string> ps2(d.params.begin(), d.params.end());
    if (ps2.size() != d.params.size()) { r.excluded = true; r.excluded_why = "duplicate parameter name"; }
    st.routine(d.body, (int)i, d.name);
  }
  st.routine(r.prog.main, (int)r.prog.defs.size(), "#root");
  return r;
}

}  // namespace ref
