#!/usr/bin/env python3
"""Content-hashed builder: compiles /repo's *current working tree* plus the harness drivers.

Flavours
  fast : -O2                                             (large enumerations)
  san  : -O1 -g ASan+UBSan, libstdc++ assertions         (memory / UB oracle)
  acc  : -O1 -fsanitize=thread, linked with harness/sched/mini_rt.cpp instead of libtsan
         (every memory access calls back into our scheduler; C18)
  tsan : -O1 -g -fsanitize=thread with the real runtime  (C18 free-running pass)

Everything is keyed by sha256(sources + flags) under /verif/.build/<flavour>-<key>/ so an edited
tree is rebuilt, a reverted tree is a cache hit.  Concurrent callers are serialised by flock.
"""
import fcntl, glob, hashlib, os, shutil, subprocess, sys, time
from concurrent.futures import ThreadPoolExecutor

VERIF = os.path.dirname(os.path.abspath(__file__))
REPO = os.environ.get("VERIF_REPO", "/repo")
BUILD = os.path.join(VERIF, ".build")
HARN = os.path.join(VERIF, "harness")
CXX = "g++"

FLAGS = {
    "fast": ["-O2"],
    "san": ["-O1", "-g", "-fsanitize=address,undefined", "-fno-sanitize-recover=undefined",
            "-fno-omit-frame-pointer", "-D_GLIBCXX_ASSERTIONS", "-D_GLIBCXX_SANITIZE_VECTOR"],
    "acc": ["-O1", "-fsanitize=thread"],
    "tsan": ["-O1", "-g", "-fsanitize=thread"],
}
COMMON = ["-std=c++20", "-w", "-I" + REPO, "-I" + REPO + "/Compiler/include", "-pthread"]


def repo_sources(repo=None):
    repo = repo or REPO
    srcs = sorted(glob.glob(repo + "/Compiler/src/*.cpp") + glob.glob(repo + "/Compiler/src/ParserGenerator/*.cpp")
                  + glob.glob(repo + "/VM/src/*.cpp"))
    srcs.append(repo + "/Compiler/src/lex.yy.c")
    return srcs


def repo_headers(repo=None):
    repo = repo or REPO
    return sorted(glob.glob(repo + "/Compiler/include/**/*.h*", recursive=True) + glob.glob(repo + "/VM/include/*.h*")
                  + [repo + "/Compiler/src/lexer.l"])


def sha_files(paths, extra=""):
    h = hashlib.sha256()
    h.update(extra.encode())
    for p in paths:
        h.update(p.split("/")[-1].encode())
        try:
            with open(p, "rb") as f:
                h.update(f.read())
        except OSError:
            h.update(b"<missing>")
    return h.hexdigest()[:16]


def run(cmd, **kw):
    r = subprocess.run(cmd, stdout=subprocess.PIPE, stderr=subprocess.STDOUT, text=True, **kw)
    if r.returncode != 0:
        sys.stderr.write("ERROR: build failed: " + " ".join(cmd) + "\n" + r.stdout[-4000:] + "\n")
        raise SystemExit(2)
    return r.stdout


def gc(flavour, keep):
    ds = sorted(glob.glob(os.path.join(BUILD, flavour + "-*")), key=os.path.getmtime, reverse=True)
    for d in ds[keep:]:
        shutil.rmtree(d, ignore_errors=True)


def build_lib(flavour):
    """Returns the directory holding the objects of the repository built with `flavour`."""
    os.makedirs(BUILD, exist_ok=True)
    srcs = repo_sources()
    key = sha_files(srcs + repo_headers(), flavour + " ".join(FLAGS[flavour]))
    d = os.path.join(BUILD, "%s-%s" % (flavour, key))
    if os.path.exists(os.path.join(d, ".ok")):
        os.utime(d)
        return d
    os.makedirs(d, exist_ok=True)
    jobs = []
    for s in srcs:
        o = os.path.join(d, os.path.basename(s).replace(".", "_") + ".o")
        cmd = [CXX] + COMMON + FLAGS[flavour] + ["-c", "-o", o]
        if s.endswith(".c"):
            cmd += ["-x", "c++"]
        cmd.append(s)
        jobs.append(cmd)
    with ThreadPoolExecutor(16) as ex:
        list(ex.map(run, jobs))
    # the "flex found" configuration: scanner regenerated from the current lexer.l
    if flavour in ("fast", "san"):
        fd = os.path.join(d, "flexgen")
        os.makedirs(fd + "/src", exist_ok=True)
        os.makedirs(fd + "/include", exist_ok=True)
        shutil.copy(REPO + "/Compiler/src/lexer.l", fd + "/src/lexer.l")
        run(["flex", "--outfile=./src/lex.yy.c", "--header-file=./include/lex.yy.h", "--noline", "--nounistd",
             "./src/lexer.l"], cwd=fd)
        # compiled against the *regenerated* header as well
        run([CXX] + ["-std=c++20", "-w", "-I" + fd + "/include", "-I" + REPO, "-I" + REPO + "/Compiler/include"]
            + FLAGS[flavour] + ["-c", "-x", "c++", "-o", os.path.join(d, "flexgen_lex.o"), fd + "/src/lex.yy.c"])
    open(os.path.join(d, ".ok"), "w").write(time.ctime())
    gc(flavour, 3)
    return d


def lib_objects(d, regenerated_scanner=False, no_scanner=False):
    objs = sorted(o for o in glob.glob(d + "/*.o") if not o.endswith("flexgen_lex.o") and not os.path.basename(o).startswith("drv_"))
    if no_scanner:
        return [o for o in objs if not o.endswith("lex_yy_c.o")]
    if regenerated_scanner:
        objs = [o for o in objs if not o.endswith("lex_yy_c.o")] + [d + "/flexgen_lex.o"]
    return objs


def build_driver(name, flavour, regenerated_scanner=False, extra_src=(), extra_flags=(), link_flags=None, no_scanner=False):
    """Builds harness/<name>.cpp against the repository objects of `flavour`; returns the binary path."""
    lock = open(os.path.join(VERIF, ".build.lock"), "w")
    fcntl.flock(lock, fcntl.LOCK_EX)
    try:
        d = build_lib(flavour)
        hs = sorted(glob.glob(HARN + "/*.hpp") + glob.glob(HARN + "/sched/*"))
        src = os.path.join(HARN, name + ".cpp")
        key = sha_files([src] + hs + list(extra_src) + ([REPO + "/Compiler/src/lex.yy.c"] if no_scanner else []), flavour + str(regenerated_scanner) + " ".join(extra_flags))
        exe = os.path.join(d, "drv_%s%s-%s" % (name, "-regen" if regenerated_scanner else "", key))
        if os.path.exists(exe):
            return exe
        for old in glob.glob(os.path.join(d, "drv_%s%s-*" % (name, "-regen" if regenerated_scanner else ""))):
            os.unlink(old)
        cmd = [CXX] + COMMON + ["-I" + HARN, "-fno-access-control"] + list(extra_flags)
        if link_flags is None:
            cmd += FLAGS[flavour]
        else:
            cmd += link_flags
        cmd += ["-o", exe + ".tmp", src] + list(extra_src) + lib_objects(d, regenerated_scanner, no_scanner)
        run(cmd)
        os.rename(exe + ".tmp", exe)
        return exe
    finally:
        fcntl.flock(lock, fcntl.LOCK_UN)


if __name__ == "__main__":
    t = time.time()
    for fl in sys.argv[1:] or ["fast", "san"]:
        print(fl, build_lib(fl), "%.1fs" % (time.time() - t))
