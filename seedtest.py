#!/usr/bin/env python3
"""seedtest.py <seeded-dir> [--props C01,C05 | --all] [--tier quick]

Confirms a seeded change (patch.diff + demo.cpp + meta.json) and runs the checks against it:
  1. in a scratch worktree outside /repo and /verif: unpatched tree builds, demo exits 0;
     patched tree builds, the 12 repository tests pass, demo exits non-zero (or crashes);
  2. applies the patch to /repo, runs the named checks, undoes it straight afterwards (git checkout -- .);
  3. records the outcome in <seeded-dir>/result.json.
"""
import json, os, shutil, subprocess, sys, time

V = os.path.dirname(os.path.abspath(__file__))


def sh(cmd, **kw):
    return subprocess.run(cmd, shell=True, stdout=subprocess.PIPE, stderr=subprocess.STDOUT, text=True, errors="replace", **kw)


def confirm(d):
    wt = "/tmp/seedchk/" + os.path.basename(d.rstrip("/"))
    sh("git -C /repo worktree remove --force %s; rm -rf %s" % (wt, wt))
    os.makedirs("/tmp/seedchk", exist_ok=True)
    r = sh("git -C /repo worktree add --detach %s HEAD" % wt)
    out = {}
    try:
        build = "cmake -G Ninja -S {w} -B {w}/_build >/dev/null && cmake --build {w}/_build 2>&1 | tail -3".format(w=wt)
        demo = ("g++ -std=c++20 -pthread -I{w} -I{w}/Compiler/include {d}/demo.cpp -L{w}/_build/Compiler -L{w}/_build/VM -lTheoC -lTheoVM "
                "-Wl,-rpath,{w}/_build/Compiler -Wl,-rpath,{w}/_build/VM -o {w}/demo").format(w=wt, d=os.path.abspath(d))
        r = sh(build); out["build_clean"] = r.returncode == 0
        r = sh(demo); out["demo_builds"] = r.returncode == 0; out["demo_build_log"] = r.stdout[-500:]
        r = sh("timeout 120 %s/demo" % wt); out["demo_on_clean"] = r.returncode; out["demo_on_clean_out"] = r.stdout[-300:]
        r = sh("git -C %s apply %s/patch.diff" % (wt, os.path.abspath(d))); out["patch_applies"] = r.returncode == 0; out["apply_log"] = r.stdout[-300:]
        r = sh(build); out["build_patched"] = r.returncode == 0; out["build_patched_log"] = r.stdout[-400:]
        r = sh("ctest --test-dir %s/_build -j8 2>&1 | tail -4" % wt); out["tests"] = r.stdout.strip()[-300:]; out["tests_pass"] = "100% tests passed" in r.stdout
        r = sh(demo)
        r = sh("timeout 120 %s/demo" % wt); out["demo_on_patched"] = r.returncode; out["demo_on_patched_out"] = r.stdout[-300:]
    finally:
        sh("git -C /repo worktree remove --force %s; rm -rf %s" % (wt, wt))
    out["confirmed"] = bool(out.get("build_clean") and out.get("demo_builds") and out.get("demo_on_clean") == 0 and out.get("patch_applies") and out.get("build_patched") and out.get("tests_pass") and out.get("demo_on_patched") != 0)
    return out


def run_checks(d, props, tier):
    res = {}
    st = sh("git -C /repo status --porcelain --untracked-files=no")
    if st.stdout.strip():
        print("ERROR: /repo has local modifications, refusing"); sys.exit(2)
    r = sh("git -C /repo apply %s/patch.diff" % os.path.abspath(d))
    if r.returncode:
        print("ERROR: patch does not apply to /repo:", r.stdout); sys.exit(2)
    try:
        for p in props:
            t = time.time()
            r = sh("cd %s && ./check %s --tier %s" % (V, p, tier))
            viol = [l for l in r.stdout.splitlines() if l.startswith("VIOLATION")]
            what = [l.strip() for l in r.stdout.splitlines() if l.strip().startswith("what:")]
            res[p] = {"exit": r.returncode, "violations": len(viol), "first": (what[0][:400] if what else ""), "wall_s": round(time.time() - t, 1)}
            print("  %s: exit %d, %d violation lines, %.0fs %s" % (p, r.returncode, len(viol), time.time() - t, (what[0][:160] if what else "")))
            if r.returncode == 2:
                res[p]["log"] = r.stdout[-800:]
    finally:
        sh("git -C /repo checkout -- .")
        # replays written while the patch was applied belong to the mutant, not to the tree
    return res


def main():
    a = sys.argv[1:]
    d = a[0]
    meta = json.load(open(os.path.join(d, "meta.json")))
    tier = a[a.index("--tier") + 1] if "--tier" in a else "quick"
    props = [meta["property"]]
    if "--props" in a:
        props = a[a.index("--props") + 1].split(",")
    if "--all" in a:
        props = ["C%02d" % i for i in range(1, 21)]
    out = {"seed": os.path.basename(d.rstrip("/")), "property": meta["property"]}
    if "--no-confirm" not in a:
        out["confirmation"] = confirm(d)
        print("confirmed:", out["confirmation"]["confirmed"], {k: v for k, v in out["confirmation"].items() if k in ("demo_on_clean", "demo_on_patched", "tests_pass", "patch_applies")})
    old = {}
    rp = os.path.join(d, "result.json")
    if os.path.exists(rp):
        old = json.load(open(rp))
        if "confirmation" not in out and "confirmation" in old:
            out["confirmation"] = old["confirmation"]
    if "--no-checks" not in a:
        checks = dict(old.get("checks", {}))
        checks.update(run_checks(d, props, tier))
        out["checks"] = checks
        out["detected_by"] = sorted(p for p, v in checks.items() if v["exit"] == 1)
        out["tier"] = tier
    json.dump(out, open(rp, "w"), indent=1)
    print("detected_by:", out.get("detected_by"))


if __name__ == "__main__":
    main()
